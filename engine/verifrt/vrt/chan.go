package vrt

// Chan is the scheduler-aware replacement for Go channels. It follows the Go
// runtime's design: parked senders and receivers queue on the channel (sudog
// style waiters); a send on an unbuffered channel is possible only when a
// receiver is parked on it, and completes by handing the value to that
// receiver directly. A nil *Chan blocks forever, as a nil channel does.
type Chan[T any] struct {
	id     uint64
	cap    int
	buf    []T
	closed bool
	recvq  []*waiter[T]
	sendq  []*waiter[T]
	// result slot of the select case that last received from this channel; read
	// by the rewritten comm clause before the thread yields again
	taken   T
	takenOK bool
}

func (c *Chan[T]) Taken() T          { return c.taken }
func (c *Chan[T]) Taken2() (T, bool) { return c.taken, c.takenOK }

type selState struct {
	committed int // case index a peer completed for us, or -1
}

type waiter[T any] struct {
	v    T
	ok   bool
	done bool      // a peer completed this operation
	sel  *selState // non-nil for select cases
	idx  int
}

func MakeChan[T any](n int) *Chan[T] { return &Chan[T]{id: NewObj(), cap: n} }

func (c *Chan[T]) oid() uint64 {
	if c == nil {
		return 0
	}
	return c.id
}

func never() bool { return false }

func (w *waiter[T]) live() bool { return !w.done && (w.sel == nil || w.sel.committed < 0) }

// firstRecv returns the first parked receiver that can still be served and does
// not belong to the select `self`.
func (c *Chan[T]) firstRecv(self *selState) *waiter[T] {
	for _, w := range c.recvq {
		if w.live() && (self == nil || w.sel != self) {
			return w
		}
	}
	return nil
}

func (c *Chan[T]) firstSend(self *selState) *waiter[T] {
	for _, w := range c.sendq {
		if w.live() && (self == nil || w.sel != self) {
			return w
		}
	}
	return nil
}

func (c *Chan[T]) canSend(self *selState) bool {
	if c == nil {
		return false
	}
	if c.closed {
		return true // will panic, as in Go
	}
	if len(c.buf) < c.cap {
		return true
	}
	return c.firstRecv(self) != nil
}

func (c *Chan[T]) canRecv(self *selState) bool {
	if c == nil {
		return false
	}
	return len(c.buf) > 0 || c.closed || c.firstSend(self) != nil
}

func removeWaiter[T any](q []*waiter[T], w *waiter[T]) []*waiter[T] {
	for i, x := range q {
		if x == w {
			return append(q[:i:i], q[i+1:]...)
		}
	}
	return q
}

// doSend performs a send that canSend allowed.
func (c *Chan[T]) doSend(v T, self *selState) {
	if c.closed {
		panic("send on closed channel")
	}
	if r := c.firstRecv(self); r != nil && len(c.buf) == 0 {
		r.v, r.ok, r.done = v, true, true
		if r.sel != nil {
			r.sel.committed = r.idx
		}
		c.recvq = removeWaiter(c.recvq, r)
		RaceRelease(c.id)
		return
	}
	c.buf = append(c.buf, v)
	RaceRelease(c.id)
}

// doRecv performs a receive that canRecv allowed.
func (c *Chan[T]) doRecv(self *selState) (v T, ok bool) {
	RaceAcquire(c.id)
	if len(c.buf) > 0 {
		v = c.buf[0]
		var zero T
		c.buf[0] = zero
		c.buf = c.buf[1:]
		// a sender parked on the full buffer moves its value in, as the runtime does
		if s := c.firstSend(self); s != nil {
			c.buf = append(c.buf, s.v)
			s.done = true
			if s.sel != nil {
				s.sel.committed = s.idx
			}
			c.sendq = removeWaiter(c.sendq, s)
		}
		return v, true
	}
	if s := c.firstSend(self); s != nil {
		s.done = true
		if s.sel != nil {
			s.sel.committed = s.idx
		}
		c.sendq = removeWaiter(c.sendq, s)
		return s.v, true
	}
	return v, false // closed
}

func (c *Chan[T]) Send(v T) {
	if S == nil || S.aborting {
		return
	}
	if c == nil {
		Yield(Op{Kind: "send-nil", Enabled: never})
		return
	}
	w := &waiter[T]{v: v}
	c.sendq = append(c.sendq, w)
	Yield(Op{Kind: "send", Obj: c.id, Enabled: func() bool { return w.done || c.canSend(nil) }})
	c.sendq = removeWaiter(c.sendq, w)
	if w.done {
		RaceRelease(c.id)
		return
	}
	c.doSend(v, nil)
}

func (c *Chan[T]) Recv2() (v T, ok bool) {
	if S == nil || S.aborting {
		return
	}
	if c == nil {
		Yield(Op{Kind: "recv-nil", Enabled: never})
		return
	}
	w := &waiter[T]{}
	c.recvq = append(c.recvq, w)
	Yield(Op{Kind: "recv", Obj: c.id, Enabled: func() bool { return w.done || c.canRecv(nil) }})
	c.recvq = removeWaiter(c.recvq, w)
	if w.done {
		RaceAcquire(c.id)
		return w.v, w.ok
	}
	return c.doRecv(nil)
}

func (c *Chan[T]) Recv() T { v, _ := c.Recv2(); return v }

func (c *Chan[T]) Close() {
	if S == nil || S.aborting {
		return
	}
	if c == nil {
		panic("close of nil channel")
	}
	Yield(Op{Kind: "close", Obj: c.id})
	if c.closed {
		panic("close of closed channel")
	}
	c.closed = true
	RaceRelease(c.id)
}

// TrySend is the non-yielding send used from timer context (buffered channels only).
func (c *Chan[T]) TrySend(v T) bool {
	if c.cap > 0 && len(c.buf) < c.cap && !c.closed {
		c.buf = append(c.buf, v)
		return true
	}
	return false
}

// CloseNoYield closes from timer/baton context.
func (c *Chan[T]) CloseNoYield() { c.closed = true; RaceRelease(c.id) }

// Drain empties the buffer without yielding (Timer.Stop/Reset semantics of go1.23).
func (c *Chan[T]) Drain() { c.buf = nil }

func (c *Chan[T]) Len() int {
	if c == nil {
		return 0
	}
	Yield(Op{Kind: "len", Obj: c.id})
	return len(c.buf)
}
func (c *Chan[T]) Cap() int {
	if c == nil {
		return 0
	}
	return c.cap
}

// ---- select ----

// Case is one communication clause of a select statement.
type Case struct {
	ready    func(*selState) bool
	fire     func(*selState)
	register func(*selState, int)
	remove   func()
	fetch    func() // copies a value delivered by a peer into the channel's taken slot
	obj      uint64
}

func RecvCase[T any](c *Chan[T]) Case {
	if c == nil {
		return Case{ready: func(*selState) bool { return false }, register: func(*selState, int) {}, remove: func() {}, fire: func(*selState) {}, fetch: func() {}}
	}
	var w *waiter[T]
	return Case{
		ready: c.canRecv,
		fire: func(self *selState) {
			c.taken, c.takenOK = c.doRecv(self)
		},
		register: func(s *selState, idx int) {
			w = &waiter[T]{sel: s, idx: idx}
			c.recvq = append(c.recvq, w)
		},
		remove: func() { c.recvq = removeWaiter(c.recvq, w) },
		fetch: func() {
			RaceAcquire(c.id)
			c.taken, c.takenOK = w.v, w.ok
		},
		obj: c.id,
	}
}

func SendCase[T any](c *Chan[T], v T) Case {
	if c == nil {
		return Case{ready: func(*selState) bool { return false }, register: func(*selState, int) {}, remove: func() {}, fire: func(*selState) {}, fetch: func() {}}
	}
	var w *waiter[T]
	return Case{
		ready: c.canSend,
		fire:  func(self *selState) { c.doSend(v, self) },
		register: func(s *selState, idx int) {
			w = &waiter[T]{v: v, sel: s, idx: idx}
			c.sendq = append(c.sendq, w)
		},
		remove: func() { c.sendq = removeWaiter(c.sendq, w) },
		fetch:  func() { RaceRelease(c.id) },
		obj:    c.id,
	}
}

// Select returns the index of the chosen case, or -1 for default.
// With several ready cases the first in source order is the default choice and
// the others are deviations (Config.SelectDeviations).
func Select(hasDefault bool, cases ...Case) int {
	if S == nil || S.aborting {
		return -1
	}
	st := &selState{committed: -1}
	for i, c := range cases {
		c.register(st, i)
	}
	var reads []uint64
	var obj uint64
	for _, c := range cases {
		if c.obj != 0 {
			reads = append(reads, c.obj)
			obj ^= c.obj
		}
	}
	var en func() bool
	if !hasDefault {
		en = func() bool {
			if st.committed >= 0 {
				return true
			}
			for _, c := range cases {
				if c.ready(st) {
					return true
				}
			}
			return false
		}
	}
	Yield(Op{Kind: "select", Obj: mix(obj, uint64(len(cases)), 0x5e1), Enabled: en, Reads: reads})
	for _, c := range cases {
		c.remove()
	}
	if st.committed >= 0 {
		cases[st.committed].fetch()
		Touch(cases[st.committed].obj)
		Fold(uint64(st.committed))
		return st.committed
	}
	var ready []int
	for i, c := range cases {
		if c.ready(st) {
			ready = append(ready, i)
		}
	}
	if len(ready) == 0 {
		Fold(^uint64(0))
		return -1
	}
	k := 0
	if len(ready) > 1 && S.Cfg.SelectDeviations {
		costs := make([]int, len(ready))
		for i := 1; i < len(costs); i++ {
			costs[i] = 1
		}
		k = Choose("select", len(ready), costs)
	}
	i := ready[k]
	cases[i].fire(st)
	Touch(cases[i].obj)
	Fold(uint64(i))
	return i
}

// ChanID returns the object id of a channel (0 for nil).
func ChanID[T any](c *Chan[T]) uint64 { return c.oid() }
