package vrt

// Chan is the scheduler-aware replacement for Go channels. It follows the Go
// runtime's design: parked senders and receivers queue on the channel (sudog
// style waiters); a send on an unbuffered channel is possible only when a
// receiver is parked on it, and completes by handing the value to that
// receiver directly. A nil *Chan blocks forever, as a nil channel does.
//
// The generic type is only a typed handle: all mutable state lives in the
// non-generic core, which is compiled with this package (and therefore without
// race instrumentation; generic code is compiled into the instrumented
// packages that instantiate it).
type Chan[T any] struct {
	core *core
}

type core struct {
	id     uint64
	cap    int
	buf    []any
	closed bool
	recvq  []*waiter
	sendq  []*waiter
	// result slot of the select case that last received from this channel; read
	// by the rewritten comm clause before the thread yields again
	taken   any
	takenOK bool
}

type selState struct {
	committed int // case index a peer completed for us, or -1
}

type waiter struct {
	v    any
	ok   bool
	done bool      // a peer completed this operation
	sel  *selState // non-nil for select cases
	idx  int
}

func cast[T any](v any) T {
	if v == nil {
		var zero T
		return zero
	}
	return v.(T)
}

func MakeChan[T any](n int) *Chan[T] { return &Chan[T]{core: &core{id: NewObj(), cap: n}} }

func (c *Chan[T]) Taken() T          { return cast[T](c.core.takenValue()) }
func (c *Chan[T]) Taken2() (T, bool) { v, ok := c.core.taken2(); return cast[T](v), ok }

func (c *Chan[T]) Send(v T) {
	if c == nil {
		sendNil()
		return
	}
	c.core.send(v)
}

func (c *Chan[T]) Recv2() (T, bool) {
	if c == nil {
		recvNil()
		var zero T
		return zero, false
	}
	v, ok := c.core.recv2()
	return cast[T](v), ok
}

func (c *Chan[T]) Recv() T { v, _ := c.Recv2(); return v }

func (c *Chan[T]) Close() {
	if c == nil {
		panic("close of nil channel")
	}
	c.core.close()
}

// TrySend is the non-yielding send used from timer context (buffered channels only).
func (c *Chan[T]) TrySend(v T) bool { return c.core.trySend(v) }

// CloseNoYield closes from timer/baton context.
func (c *Chan[T]) CloseNoYield() { c.core.closeNoYield() }

// Drain empties the buffer without yielding (Timer.Stop/Reset semantics of go1.23).
func (c *Chan[T]) Drain() { c.core.drain() }

func (c *Chan[T]) Len() int {
	if c == nil {
		return 0
	}
	return c.core.len()
}
func (c *Chan[T]) Cap() int {
	if c == nil {
		return 0
	}
	return c.core.capacity()
}

// ChanID returns the object id of a channel (0 for nil).
func ChanID[T any](c *Chan[T]) uint64 {
	if c == nil {
		return 0
	}
	return c.core.oid()
}

func RecvCase[T any](c *Chan[T]) Case {
	if c == nil {
		return nilCase()
	}
	return c.core.recvCase()
}

func SendCase[T any](c *Chan[T], v T) Case {
	if c == nil {
		return nilCase()
	}
	return c.core.sendCase(v)
}

// ---- non-generic core (not race-instrumented) ----

func (c *core) takenValue() any     { return c.taken }
func (c *core) taken2() (any, bool) { return c.taken, c.takenOK }
func (c *core) capacity() int       { return c.cap }
func (c *core) oid() uint64         { return c.id }

func never() bool { return false }

func sendNil() {
	if S == nil || S.aborting {
		return
	}
	Yield(Op{Kind: "send-nil", Enabled: never})
}

func recvNil() {
	if S == nil || S.aborting {
		return
	}
	Yield(Op{Kind: "recv-nil", Enabled: never})
}

func (w *waiter) live() bool { return !w.done && (w.sel == nil || w.sel.committed < 0) }

// firstRecv returns the first parked receiver that can still be served and does
// not belong to the select `self`.
func (c *core) firstRecv(self *selState) *waiter {
	for _, w := range c.recvq {
		if w.live() && (self == nil || w.sel != self) {
			return w
		}
	}
	return nil
}

func (c *core) firstSend(self *selState) *waiter {
	for _, w := range c.sendq {
		if w.live() && (self == nil || w.sel != self) {
			return w
		}
	}
	return nil
}

func (c *core) canSend(self *selState) bool {
	if c.closed {
		return true // will panic, as in Go
	}
	if len(c.buf) < c.cap {
		return true
	}
	return c.firstRecv(self) != nil
}

func (c *core) canRecv(self *selState) bool {
	return len(c.buf) > 0 || c.closed || c.firstSend(self) != nil
}

func removeWaiter(q []*waiter, w *waiter) []*waiter {
	for i, x := range q {
		if x == w {
			return append(q[:i:i], q[i+1:]...)
		}
	}
	return q
}

// doSend performs a send that canSend allowed.
func (c *core) doSend(v any, self *selState) {
	if c.closed {
		panic("send on closed channel")
	}
	if r := c.firstRecv(self); r != nil && len(c.buf) == 0 {
		r.v, r.ok, r.done = v, true, true
		if r.sel != nil {
			r.sel.committed = r.idx
		}
		c.recvq = removeWaiter(c.recvq, r)
		return
	}
	c.buf = append(c.buf, v)
}

// doRecv performs a receive that canRecv allowed.
func (c *core) doRecv(self *selState) (v any, ok bool) {
	RaceAcquire(c.id)
	if len(c.buf) > 0 {
		v = c.buf[0]
		c.buf[0] = nil
		c.buf = c.buf[1:]
		// a sender parked on the full buffer moves its value in, as the runtime does
		if s := c.firstSend(self); s != nil {
			c.buf = append(c.buf, s.v)
			s.done = true
			if s.sel != nil {
				s.sel.committed = s.idx
			}
			c.sendq = removeWaiter(c.sendq, s)
		}
		return v, true
	}
	if s := c.firstSend(self); s != nil {
		s.done = true
		if s.sel != nil {
			s.sel.committed = s.idx
		}
		c.sendq = removeWaiter(c.sendq, s)
		return s.v, true
	}
	return nil, false // closed
}

func (c *core) send(v any) {
	if S == nil || S.aborting {
		return
	}
	// everything before the send statement happens before the matching receive completes;
	// the value may be taken by the receiver while this thread is still parked
	RaceRelease(c.id)
	w := &waiter{v: v}
	c.sendq = append(c.sendq, w)
	Yield(Op{Kind: "send", Obj: c.id, Enabled: func() bool { return w.done || c.canSend(nil) }})
	c.sendq = removeWaiter(c.sendq, w)
	if w.done {
		return
	}
	c.doSend(v, nil)
}

func (c *core) recv2() (any, bool) {
	if S == nil || S.aborting {
		return nil, false
	}
	w := &waiter{}
	c.recvq = append(c.recvq, w)
	Yield(Op{Kind: "recv", Obj: c.id, Enabled: func() bool { return w.done || c.canRecv(nil) }})
	c.recvq = removeWaiter(c.recvq, w)
	if w.done {
		RaceAcquire(c.id)
		return w.v, w.ok
	}
	return c.doRecv(nil)
}

func (c *core) close() {
	if S == nil || S.aborting {
		return
	}
	Yield(Op{Kind: "close", Obj: c.id})
	if c.closed {
		panic("close of closed channel")
	}
	RaceRelease(c.id)
	c.closed = true
}

func (c *core) trySend(v any) bool {
	if c.cap > 0 && len(c.buf) < c.cap && !c.closed {
		c.buf = append(c.buf, v)
		return true
	}
	return false
}

func (c *core) closeNoYield() { RaceRelease(c.id); c.closed = true }
func (c *core) drain()        { c.buf = nil }

func (c *core) len() int {
	Yield(Op{Kind: "len", Obj: c.id})
	return len(c.buf)
}

// ---- select ----

// Case is one communication clause of a select statement.
type Case struct {
	ready    func(*selState) bool
	fire     func(*selState)
	register func(*selState, int)
	remove   func()
	fetch    func() // copies a value delivered by a peer into the channel's taken slot
	obj      uint64
}

func nilCase() Case {
	return Case{ready: func(*selState) bool { return false }, register: func(*selState, int) {}, remove: func() {}, fire: func(*selState) {}, fetch: func() {}}
}

func (c *core) recvCase() Case {
	var w *waiter
	return Case{
		ready: c.canRecv,
		fire:  func(self *selState) { c.taken, c.takenOK = c.doRecv(self) },
		register: func(s *selState, idx int) {
			w = &waiter{sel: s, idx: idx}
			c.recvq = append(c.recvq, w)
		},
		remove: func() { c.recvq = removeWaiter(c.recvq, w) },
		fetch: func() {
			RaceAcquire(c.id)
			c.taken, c.takenOK = w.v, w.ok
		},
		obj: c.id,
	}
}

func (c *core) sendCase(v any) Case {
	var w *waiter
	return Case{
		ready: c.canSend,
		fire:  func(self *selState) { c.doSend(v, self) },
		register: func(s *selState, idx int) {
			RaceRelease(c.id)
			w = &waiter{v: v, sel: s, idx: idx}
			c.sendq = append(c.sendq, w)
		},
		remove: func() { c.sendq = removeWaiter(c.sendq, w) },
		fetch:  func() {},
		obj:    c.id,
	}
}

// Select returns the index of the chosen case, or -1 for default.
// With several ready cases the first in source order is the default choice and
// the others are deviations (Config.SelectDeviations).
func Select(hasDefault bool, cases ...Case) int {
	if S == nil || S.aborting {
		return -1
	}
	st := &selState{committed: -1}
	for i, c := range cases {
		c.register(st, i)
	}
	var reads []uint64
	var obj uint64
	for _, c := range cases {
		if c.obj != 0 {
			reads = append(reads, c.obj)
			obj ^= c.obj
		}
	}
	var en func() bool
	if !hasDefault {
		en = func() bool {
			if st.committed >= 0 {
				return true
			}
			for _, c := range cases {
				if c.ready(st) {
					return true
				}
			}
			return false
		}
	}
	Yield(Op{Kind: "select", Obj: mix(obj, uint64(len(cases)), 0x5e1), Enabled: en, Reads: reads})
	for _, c := range cases {
		c.remove()
	}
	if st.committed >= 0 {
		cases[st.committed].fetch()
		Touch(cases[st.committed].obj)
		Fold(uint64(st.committed))
		return st.committed
	}
	var ready []int
	for i, c := range cases {
		if c.ready(st) {
			ready = append(ready, i)
		}
	}
	if len(ready) == 0 {
		Fold(^uint64(0))
		return -1
	}
	k := 0
	if len(ready) > 1 && S.Cfg.SelectDeviations {
		costs := make([]int, len(ready))
		for i := 1; i < len(costs); i++ {
			costs[i] = 1
		}
		k = Choose("select", len(ready), costs)
	}
	i := ready[k]
	cases[i].fire(st)
	Touch(cases[i].obj)
	Fold(uint64(i))
	return i
}
