package vrt

// u64map is a small open-addressing hash map from uint64 to uint64. The
// scheduler's tables are touched by every logical thread (always under the
// baton); Go's built-in maps report to the race detector from inside the
// runtime even when this package is compiled without race instrumentation,
// so the shared tables must not be built-in maps.
type u64map struct {
	keys []uint64
	vals []uint64
	used []bool
	n    int
}

func (m *u64map) slot(k uint64) (int, bool) {
	if len(m.keys) == 0 {
		return -1, false
	}
	mask := uint64(len(m.keys) - 1)
	i := (k * 0x9e3779b97f4a7c15) >> 7 & mask
	for {
		if !m.used[i] {
			return int(i), false
		}
		if m.keys[i] == k {
			return int(i), true
		}
		i = (i + 1) & mask
	}
}

func (m *u64map) get(k uint64) uint64 {
	if i, ok := m.slot(k); ok {
		return m.vals[i]
	}
	return 0
}

func (m *u64map) has(k uint64) bool { _, ok := m.slot(k); return ok }

func (m *u64map) set(k, v uint64) {
	if m.n*2 >= len(m.keys) {
		m.grow()
	}
	i, ok := m.slot(k)
	if !ok {
		m.used[i], m.keys[i] = true, k
		m.n++
	}
	m.vals[i] = v
}

func (m *u64map) grow() {
	ok, ov, ou := m.keys, m.vals, m.used
	size := 64
	if len(ok) > 0 {
		size = len(ok) * 2
	}
	m.keys, m.vals, m.used, m.n = make([]uint64, size), make([]uint64, size), make([]bool, size), 0
	for i := range ok {
		if ou[i] {
			j, _ := m.slot(ok[i])
			m.used[j], m.keys[j], m.vals[j] = true, ok[i], ov[i]
			m.n++
		}
	}
}

// each calls f for every entry.
func (m *u64map) each(f func(k, v uint64)) {
	for i := range m.keys {
		if m.used[i] {
			f(m.keys[i], m.vals[i])
		}
	}
}
