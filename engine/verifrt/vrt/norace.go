//go:build !race

package vrt

func handoff(next *thread)    { next.resume <- struct{}{} }
func waitBaton(t *thread)     { <-t.resume }
func raceSpawn(p, t *thread)  {}
func raceThreadEnd(t *thread) {}

// RaceAcquire/RaceRelease/RaceReleaseMerge are no-ops without the race detector.
func RaceAcquire(obj uint64)      {}
func RaceRelease(obj uint64)      {}
func RaceReleaseMerge(obj uint64) {}
func RaceErrors() int             { return 0 }

const RaceEnabled = false
