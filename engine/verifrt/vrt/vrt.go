// Package vrt is the controlled scheduler of engine E2 (DESIGN.md §2.2).
//
// Baton passing: every logical goroutine of the program under test is a real
// goroutine parked on its own semaphore; exactly one runs at a time. A thread
// that reaches a visible operation publishes it (Yield), the scheduler computes
// the enabled set, takes the next alternative from the current choice sequence
// and hands the baton over. Everything Go leaves to chance is a recorded choice:
// which enabled thread runs, which due timer fires, whether virtual time jumps
// while threads are runnable, which ready select case is taken, and whatever
// a scenario asks through Choose.
package vrt

import (
	"fmt"
	"hash/fnv"
	"runtime"
	"strings"
)

// Op is a visible operation a thread is about to perform.
type Op struct {
	Kind    string
	Obj     uint64
	Enabled func() bool
	Arg     uint64
	// Reads lists further objects whose state the operation observes
	// without modifying it (folded into the thread hash only).
	Reads []uint64
	// AddrKeyed marks an object id derived from a memory address (not stable across runs; never printed or hashed).
	AddrKeyed bool
}

type thread struct {
	id      int
	name    string
	resume  chan struct{}
	pending *Op
	done    bool
	hash    uint64
	nobj    uint64
	loc     string
	exited  chan struct{}
	ident   uint64 // schedule-independent identity (derived from the parent's history)
	nspawn  uint64
	nops    int
	raceCtx uintptr
	eager   bool // environment thread: runs as soon as it is enabled, never a choice
	tag     string
}

// Point is one choice point of an execution.
type Point struct {
	N          int  // number of alternatives
	Chosen     int  // index taken
	CurEnabled bool // alternative 0 is "continue the running thread"
	FP         uint64
	Window     bool
	Costs      []int  // deviation cost of each alternative
	Kind       string // "sched" or the Choose kind
}

type Failure struct {
	Kind string // panic | deadlock | steps | engine
	Msg  string
}

type timer struct {
	at   int64
	seq  int
	fire func()
	dead bool
	key  uint64 // schedule-independent identity (creator hash)
}

// Config parametrises one execution.
type Config struct {
	Horizon          int64 // virtual nanoseconds; 0 = none
	MaxSteps         int
	KeepTrace        bool
	TimeDeviations   bool // "the clock jumps while threads are runnable" is an alternative (cost 1)
	SelectDeviations bool // a ready select case other than the first is an alternative (cost 1)
	// DelayBounded counts every departure from the canonical deterministic scheduler
	// (continue the running thread, else the lowest thread id) as one deviation, also
	// when the running thread has blocked (delay-bounded scheduling); the default is
	// preemption bounding, where choosing among threads after a block is free.
	DelayBounded bool
	// TimersFirst (with DelayBounded): due timers are part of the canonical scheduler (they fire first, in
	// order) and letting one wait costs a delay, instead of every placement of a due timer being free.
	// For scenarios with many periodic timers due at the same instants, where free placement is exponential.
	TimersFirst bool
	// PruneAt, if set, is asked at every choice point beyond the forced prefix whether the
	// state (fingerprint) has already been expanded; the execution then stops there.
	PruneAt func(fp uint64) bool
}

// Exec is one execution under a forced choice prefix.
type Exec struct {
	Cfg      Config
	threads  []*thread
	cur      *thread
	prefix   []int
	Points   []Point
	Trace    []string
	now      int64
	timers   []*timer
	tseq     int
	window   bool
	aborting bool
	Fail     *Failure
	finished chan struct{}
	objHash  u64map
	Steps    int
	envHash  uint64
	Out      map[string]any
	closer   *thread
	// Conflicts counts, per object, how many distinct threads touched it inside the window.
	touched u64map // object -> bit set of the threads (id mod 64) that touched it inside the window
	cleanup []func()
	inEnv   bool
}

// S is the running execution (one per process at a time).
var S *Exec

func mix(a, b, c uint64) uint64 {
	h := fnv.New64a()
	var buf [24]byte
	for i := 0; i < 8; i++ {
		buf[i] = byte(a >> (8 * i))
		buf[8+i] = byte(b >> (8 * i))
		buf[16+i] = byte(c >> (8 * i))
	}
	h.Write(buf[:])
	return h.Sum64()
}

// Mix is exported for shims that build identities.
func Mix(a, b, c uint64) uint64 { return mix(a, b, c) }

func hs(s string) uint64 { h := fnv.New64a(); h.Write([]byte(s)); return h.Sum64() }

// NewObj returns a schedule-independent object id (creator thread hash + local counter).
func NewObj() uint64 {
	s := S
	if s == nil || s.cur == nil {
		return 0
	}
	t := s.cur
	t.nobj++
	return mix(t.hash, t.nobj, 0x9e3779b97f4a7c15)
}

// Active reports whether code runs under the scheduler (and is not being unwound).
func Active() bool { return S != nil && !S.aborting }

// OnCleanup registers f to run (natively) when the execution has ended.
func OnCleanup(f func()) {
	if S != nil {
		S.cleanup = append(S.cleanup, f)
	}
}

// Run executes body as the main thread under the given forced choice prefix.
func Run(prefix []int, cfg Config, body func()) *Exec {
	if cfg.MaxSteps == 0 {
		cfg.MaxSteps = 2000000
	}
	for _, f := range resetHooks {
		f()
	}
	s := &Exec{Cfg: cfg, prefix: prefix, finished: make(chan struct{}), Out: map[string]any{}}
	S = s
	main := &thread{id: 0, name: "main", resume: make(chan struct{}, 1), hash: hs("main"), ident: hs("main"), exited: make(chan struct{})}
	s.threads = append(s.threads, main)
	s.cur = main
	go s.threadBody(main, body, true)
	<-s.finished
	S = nil
	for _, f := range s.cleanup {
		f()
	}
	return s
}

func (s *Exec) threadBody(t *thread, f func(), isMain bool) {
	defer func() {
		r := recover()
		if s.aborting {
			// unwinding: either we are being unwound by the closer, or we are the closer
			RaceReleaseMerge(abortCell)
			if s.closer == t {
				close(s.finished)
			} else {
				close(t.exited)
			}
			return
		}
		if r != nil {
			buf := make([]byte, 16384)
			n := runtime.Stack(buf, false)
			s.fail("panic", fmt.Sprintf("thread %s: %v\n%s", t.name, r, buf[:n]))
		}
		t.done = true
		raceThreadEnd(t)
		if isMain || s.Fail != nil {
			s.endExecution(t)
			close(s.finished)
			return
		}
		s.logf(t, "exit", 0)
		next := s.pick(t)
		if next == nil {
			s.endExecution(t)
			close(s.finished)
			return
		}
		handoff(next)
	}()
	if !isMain {
		waitBaton(t)
		s.resumed(t)
	}
	f()
}

// resumed is called by a thread that has just been handed the baton.
func (s *Exec) resumed(t *thread) {
	if s.aborting {
		// The execution is over and this thread is only unwound. Its deferred functions run with every
		// shim turned into a no-op, so they would look like unsynchronised accesses to the race
		// detector: order them after everything that happened in the execution.
		RaceAcquire(abortCell)
		runtime.Goexit()
	}
	s.cur = t
	op := t.pending
	t.pending = nil
	h := mix(t.hash, s.objHash.get(op.Obj), hs(op.Kind)^op.Arg)
	for _, r := range op.Reads {
		h = mix(h, s.objHash.get(r), 0x4ead)
	}
	t.hash = h
	s.objHash.set(op.Obj, h)
	t.nops++
	if s.window && op.Obj != 0 {
		s.touched.set(op.Obj, s.touched.get(op.Obj)|1<<(uint(t.id)%64))
	}
	if op.AddrKeyed {
		s.logf(t, op.Kind, 0)
	} else {
		s.logf(t, op.Kind, op.Obj)
	}
}

// Fold mixes an observed value into the running thread's history (used by shims
// after an operation whose outcome the scheduler could not know in advance).
func Fold(v uint64) {
	if S != nil && S.cur != nil && !S.aborting {
		S.cur.hash = mix(S.cur.hash, v, 0xf01d)
	}
}

// Touch folds the running thread's history into obj (a write the operation performed).
func Touch(obj uint64) {
	if S != nil && S.cur != nil && !S.aborting {
		h := mix(S.cur.hash, S.objHash.get(obj), 0x70c4)
		S.cur.hash = h
		S.objHash.set(obj, h)
	}
}

func (s *Exec) fail(kind, msg string) {
	if s.Fail == nil {
		s.Fail = &Failure{kind, msg}
	}
}

// FailNow lets scenario code end the execution with a failure of its own kind.
func FailNow(kind, msg string) {
	s := S
	if s == nil || s.aborting {
		return
	}
	s.fail(kind, msg)
	s.endExecution(s.cur)
	runtime.Goexit()
}

// endExecution unwinds every other live thread, one at a time, from the
// goroutine that holds the baton.
func (s *Exec) endExecution(t *thread) {
	RaceReleaseMerge(abortCell)
	RaceAcquire(abortCell)
	s.aborting = true
	s.closer = t
	t.done = true
	for _, o := range s.threads {
		if o != t && !o.done {
			o.done = true
			o.resume <- struct{}{}
			<-o.exited
		}
	}
}

// ConflictObjects is the number of synchronisation objects touched by at least
// two threads inside the exploration window (vacuity guard).
func (s *Exec) ConflictObjects() int {
	n := 0
	s.touched.each(func(_, bits uint64) {
		if bits&(bits-1) != 0 {
			n++
		}
	})
	return n
}

// Threads returns the number of logical threads the execution created.
func (s *Exec) Threads() int { return len(s.threads) }

// Go spawns a new logical thread.
func Go(f func()) {
	s := S
	if s == nil || s.aborting {
		return
	}
	p := s.cur
	t := &thread{id: len(s.threads), resume: make(chan struct{}, 1), exited: make(chan struct{})}
	p.nspawn++
	t.hash = mix(p.hash, p.nspawn, 0x1234567)
	t.ident = t.hash
	t.name = fmt.Sprintf("t%d", t.id)
	t.eager = p.eager
	t.tag = p.tag
	t.pending = &Op{Kind: "start", Obj: t.hash, Enabled: func() bool { return true }}
	s.threads = append(s.threads, t)
	raceSpawn(p, t)
	go s.threadBody(t, f, false)
	Yield(Op{Kind: "spawn", Obj: t.hash})
}

// BeginWindow / EndWindow delimit the part of the execution in which alternatives are explored.
func BeginWindow() {
	if S != nil {
		S.window = true
	}
}
func EndWindow() {
	if S != nil {
		S.window = false
	}
}

// Yield is the scheduling point before a visible operation.
func Yield(op Op) {
	s := S
	if s == nil {
		return
	}
	if s.aborting {
		return
	}
	t := s.cur
	if op.Enabled == nil {
		op.Enabled = func() bool { return true }
	}
	if s.Cfg.KeepTrace {
		t.loc = caller()
	}
	t.pending = &op
	RaceReleaseMerge(abortCell) // see resumed(): unwinding threads synchronise with everything that ran
	next := s.pick(t)
	if next == nil {
		// nothing can run: deadlock, failure or horizon; end the execution from here
		s.endExecution(t)
		runtime.Goexit()
	}
	if next != t {
		handoff(next)
		waitBaton(t)
	}
	s.resumed(t)
}

func caller() string {
	pcs := make([]uintptr, 12)
	n := runtime.Callers(3, pcs)
	fr := runtime.CallersFrames(pcs[:n])
	for {
		f, more := fr.Next()
		if !strings.Contains(f.File, "/verifrt/") {
			return fmt.Sprintf("%s:%d", f.File[strings.LastIndex(f.File, "/")+1:], f.Line)
		}
		if !more {
			return "?"
		}
	}
}

func (s *Exec) logf(t *thread, kind string, obj uint64) {
	s.Steps++
	if s.Cfg.KeepTrace {
		s.Trace = append(s.Trace, fmt.Sprintf("%-5s %-10s %016x %s", t.name, kind, obj, t.loc))
	}
}

// fingerprint identifies the Mazurkiewicz trace executed so far: every thread's
// hash chains through the hashes of the objects it touched, so the multiset of
// (thread identity, thread hash) determines the state. Object keys and thread
// numbering (both schedule dependent) are deliberately not part of it.
func (s *Exec) fingerprint(cur *thread, curEnabled bool) uint64 {
	var fp uint64
	for _, t := range s.threads {
		fp ^= mix(t.ident, t.hash, 1)
	}
	fp ^= mix(uint64(s.now), s.envHash, 3)
	if curEnabled {
		fp ^= mix(cur.ident, 7, 7)
	}
	return fp
}

// Choose is an internal choice point of the running thread: n alternatives with
// the given deviation costs (costs[0] must be 0). It does not switch threads.
func Choose(kind string, n int, costs []int) int {
	s := S
	if s == nil || s.aborting || n <= 1 {
		return 0
	}
	idx := 0
	pos := len(s.Points)
	if pos < len(s.prefix) {
		idx = s.prefix[pos]
		if idx >= n {
			s.fail("engine", fmt.Sprintf("replay divergence at point %d (%s): choice %d of %d", pos, kind, idx, n))
			s.endExecution(s.cur)
			runtime.Goexit()
		}
	}
	var fp uint64
	if s.window {
		fp = s.fingerprint(s.cur, true) ^ hs("choose:"+kind)
	}
	s.Points = append(s.Points, Point{N: n, Chosen: idx, CurEnabled: true, FP: fp, Window: s.window, Costs: costs, Kind: kind})
	if s.window && pos >= len(s.prefix) && s.Cfg.PruneAt != nil && s.Cfg.PruneAt(fp) {
		s.fail("pruned", "")
		s.endExecution(s.cur)
		runtime.Goexit()
	}
	s.cur.hash = mix(s.cur.hash, uint64(idx), hs(kind))
	if s.Cfg.KeepTrace {
		s.Trace = append(s.Trace, fmt.Sprintf("%-5s %-10s choice %d/%d", s.cur.name, "choose:"+kind, idx, n))
	}
	return idx
}

// pick chooses the next thread to run. from is the thread holding the baton.
func (s *Exec) pick(from *thread) *thread {
	if s.Fail != nil {
		return nil
	}
	if s.Steps > s.Cfg.MaxSteps {
		s.fail("steps", "step limit")
		return nil
	}
	for {
		// environment threads run as soon as they can: deterministic, lowest id first
		for _, t := range s.threads {
			if t.eager && !t.done && t.pending != nil && t.pending.Enabled() {
				return t
			}
		}
		var en []*thread
		curEn := false
		if !from.done && from.pending != nil && from.pending.Enabled() {
			en = append(en, from)
			curEn = true
		}
		for _, t := range s.threads {
			if t == from || t.done || t.pending == nil {
				continue
			}
			if t.pending.Enabled() {
				en = append(en, t)
			}
		}
		due := s.dueTimers()
		if len(en) == 0 && len(due) == 0 {
			if s.advanceClock() {
				continue
			}
			if !s.threads[0].done {
				var b strings.Builder
				for _, t := range s.threads {
					if !t.done && t.pending != nil {
						fmt.Fprintf(&b, "  %s blocked on %s %016x at %s\n", t.name, t.pending.Kind, t.pending.Obj, t.loc)
					}
				}
				s.fail("deadlock", b.String())
			}
			return nil
		}
		// alternatives: threads, then due timers, then (deviation) "time passes"
		n := len(en) + len(due)
		canAdvance := len(en) > 0 && s.Cfg.TimeDeviations && s.window && s.hasFutureTimer()
		if canAdvance {
			n++
		}
		idx := 0
		pos := len(s.Points)
		if n > 1 && pos < len(s.prefix) {
			idx = s.prefix[pos]
			if idx >= n {
				s.fail("engine", fmt.Sprintf("replay divergence at point %d: choice %d of %d", pos, idx, n))
				return nil
			}
		}
		if n > 1 {
			costs := make([]int, n)
			for i := range costs {
				switch {
				case s.Cfg.TimersFirst:
					// delay bounding proper: the canonical scheduler fires due timers in order, then runs the
					// threads in order; every departure from it (also letting a due timer wait) is one delay
					if i != 0 {
						costs[i] = 1
					}
				case i < len(en):
					if (curEn || s.Cfg.DelayBounded) && i != 0 {
						costs[i] = 1
					}
				case i < len(en)+len(due):
					// a timer whose deadline has been reached may fire at any moment: it is an
					// ordinary alternative of the environment, not a deviation
					costs[i] = 0
				default:
					costs[i] = 1 // the clock jumps while threads are runnable
				}
			}
			var fp uint64
			if s.window && n > 1 {
				fp = s.fingerprint(from, curEn)
			}
			s.Points = append(s.Points, Point{N: n, Chosen: idx, CurEnabled: curEn, FP: fp, Window: s.window, Costs: costs, Kind: "sched"})
			if s.window && pos >= len(s.prefix) && s.Cfg.PruneAt != nil && s.Cfg.PruneAt(fp) {
				s.fail("pruned", "")
				return nil
			}
		}
		switch {
		case s.Cfg.TimersFirst && idx < len(due):
			s.fire(due[idx])
			continue
		case s.Cfg.TimersFirst && idx < len(due)+len(en):
			return en[idx-len(due)]
		case idx < len(en):
			return en[idx]
		case idx < len(en)+len(due):
			s.fire(due[idx-len(en)])
			continue
		default:
			s.advanceClock()
			continue
		}
	}
}

// ---- virtual time ----

// Now is the virtual clock in nanoseconds since the virtual epoch.
func Now() int64 {
	s := S
	if s == nil {
		return 0
	}
	if !s.inEnv && !s.aborting && s.cur != nil {
		// the value read is part of the reader's local state
		s.cur.hash = mix(s.cur.hash, uint64(s.now), 0x90e)
	}
	return s.now
}

// Timer is a pending environment event.
type Timer = timer

// AddTimer registers fire to run (in baton context, it must not yield) at now+d.
func AddTimer(d int64, fire func()) *Timer {
	s := S
	if s == nil {
		return &timer{dead: true}
	}
	if d < 0 {
		d = 0
	}
	s.tseq++
	t := &timer{at: s.now + d, seq: s.tseq, fire: fire}
	if s.inEnv {
		t.key = mix(s.envHash, uint64(t.at), 0x7174)
	} else if s.cur != nil {
		s.cur.nobj++
		s.cur.hash = mix(s.cur.hash, uint64(t.at), 0x7175)
		t.key = mix(s.cur.hash, s.cur.nobj, 0x7173)
	}
	s.timers = append(s.timers, t)
	return t
}

func (t *timer) Stop() bool {
	if t.dead {
		return false
	}
	t.dead = true
	return true
}

func (s *Exec) liveTimers() []*timer {
	live := s.timers[:0]
	for _, t := range s.timers {
		if !t.dead {
			live = append(live, t)
		}
	}
	s.timers = live
	// insertion sort by (deadline, creation order); no library call: the standard library is
	// race-instrumented and the scheduler's state is shared under the baton
	for i := 1; i < len(live); i++ {
		t := live[i]
		j := i
		for j > 0 && (live[j-1].at > t.at || (live[j-1].at == t.at && live[j-1].seq > t.seq)) {
			live[j] = live[j-1]
			j--
		}
		live[j] = t
	}
	return s.timers
}

func (s *Exec) dueTimers() []*timer {
	var due []*timer
	for _, t := range s.liveTimers() {
		if t.at <= s.now {
			due = append(due, t)
		}
	}
	return due
}

func (s *Exec) hasFutureTimer() bool {
	for _, t := range s.liveTimers() {
		if t.at > s.now && (s.Cfg.Horizon == 0 || t.at <= s.Cfg.Horizon) {
			return true
		}
	}
	return false
}

// advanceClock jumps to the earliest future deadline (within the horizon).
func (s *Exec) advanceClock() bool {
	for _, t := range s.liveTimers() {
		if t.at > s.now {
			if s.Cfg.Horizon > 0 && t.at > s.Cfg.Horizon {
				return false
			}
			s.now = t.at
			s.envHash = mix(s.envHash, uint64(t.at), 0x71e)
			return true
		}
	}
	return false
}

func (s *Exec) fire(t *timer) {
	t.dead = true
	s.envHash = mix(s.envHash, t.key, 0xf12e)
	if s.Cfg.KeepTrace {
		s.Trace = append(s.Trace, fmt.Sprintf("%-5s %-10s at=%dms", "env", "timer", t.at/1e6))
	}
	s.inEnv = true
	t.fire()
	s.inEnv = false
}

// Settle parks the caller until no other thread can run (setup quiescence).
func Settle() {
	s := S
	if s == nil || s.aborting {
		return
	}
	me := s.cur
	Yield(Op{Kind: "settle", Obj: 0x5e771e, Enabled: func() bool {
		for _, t := range s.threads {
			if t != me && !t.done && t.pending != nil && t.pending.Enabled() {
				return false
			}
		}
		return true
	}})
}

// Choices returns the complete choice sequence of a finished execution.
func (s *Exec) Choices() []int {
	c := make([]int, len(s.Points))
	for i, p := range s.Points {
		c[i] = p.Chosen
	}
	return c
}

// SpawnFromEnv creates a logical thread from timer (scheduler) context; it must not yield.
func SpawnFromEnv(f func()) {
	s := S
	if s == nil || s.aborting {
		return
	}
	t := &thread{id: len(s.threads), resume: make(chan struct{}, 1), exited: make(chan struct{})}
	s.tseq++
	t.hash = mix(s.envHash, uint64(s.tseq), 0xaf7e2)
	t.ident = t.hash
	t.name = fmt.Sprintf("t%d", t.id)
	t.pending = &Op{Kind: "start", Obj: t.hash, Enabled: func() bool { return true }}
	s.threads = append(s.threads, t)
	go s.threadBody(t, f, false)
}

var resetHooks []func()

// RegisterReset registers f to run before every execution (package-level state of shims).
func RegisterReset(f func()) { resetHooks = append(resetHooks, f) }

// SetEager marks the calling thread (and every thread it spawns from now on) as
// part of the environment: it runs as soon as it is enabled and never takes
// part in a scheduling choice. Scenarios use it to make a peer "prompt" when the
// property under exploration concerns only the other side.
func SetEager(on bool) {
	if S != nil && S.cur != nil {
		S.cur.eager = on
	}
}

// SetTag labels the calling thread; threads it spawns from now on inherit the label.
func SetTag(tag string) {
	if S != nil && S.cur != nil {
		S.cur.tag = tag
	}
}

// LiveThreads lists the threads carrying the tag that have not finished (the caller excluded),
// each with the operation it is parked on.
func LiveThreads(tag string) []string {
	s := S
	if s == nil {
		return nil
	}
	var out []string
	for _, t := range s.threads {
		if t == s.cur || t.done || t.tag != tag {
			continue
		}
		d := t.name
		if t.pending != nil {
			d += " parked on " + t.pending.Kind
		}
		if t.loc != "" {
			d += " at " + t.loc
		}
		out = append(out, d)
	}
	return out
}

// abortCell orders the unwinding of an ended execution after the execution itself (race builds only).
const abortCell = 0xab027ab027
