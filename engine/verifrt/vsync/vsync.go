// Package vsync replaces package sync in the instrumented copy of the code under test.
package vsync

import "verifrt/vrt"

type Locker interface {
	Lock()
	Unlock()
}

type Mutex struct {
	id     uint64
	locked bool
}

func (m *Mutex) oid() uint64 {
	if m.id == 0 {
		m.id = vrt.NewObj()
	}
	return m.id
}
func (m *Mutex) Lock() {
	if !vrt.Active() {
		return
	}
	vrt.Yield(vrt.Op{Kind: "lock", Obj: m.oid(), Enabled: func() bool { return !m.locked }})
	m.locked = true
	vrt.RaceAcquire(m.id)
}
func (m *Mutex) Unlock() {
	if !vrt.Active() {
		return
	}
	vrt.Yield(vrt.Op{Kind: "unlock", Obj: m.oid()})
	if !m.locked {
		panic("sync: unlock of unlocked mutex")
	}
	vrt.RaceRelease(m.id)
	m.locked = false
}
func (m *Mutex) TryLock() bool {
	if !vrt.Active() {
		return true
	}
	vrt.Yield(vrt.Op{Kind: "trylock", Obj: m.oid()})
	if m.locked {
		vrt.Fold(0)
		return false
	}
	m.locked = true
	vrt.RaceAcquire(m.id)
	vrt.Fold(1)
	return true
}

// RWMutex follows sync.RWMutex: a writer that has called Lock blocks new readers.
type RWMutex struct {
	id      uint64
	w       bool
	wwait   int
	readers int
}

func (m *RWMutex) oid() uint64 {
	if m.id == 0 {
		m.id = vrt.NewObj()
	}
	return m.id
}
func (m *RWMutex) Lock() {
	if !vrt.Active() {
		return
	}
	// step 1: announce (blocks readers arriving later); step 2: acquire
	vrt.Yield(vrt.Op{Kind: "wannounce", Obj: m.oid()})
	m.wwait++
	vrt.Yield(vrt.Op{Kind: "wlock", Obj: m.id, Enabled: func() bool { return !m.w && m.readers == 0 }})
	m.wwait--
	m.w = true
	vrt.RaceAcquire(m.id)
	vrt.RaceAcquire(m.id ^ 1)
}
func (m *RWMutex) Unlock() {
	if !vrt.Active() {
		return
	}
	vrt.Yield(vrt.Op{Kind: "wunlock", Obj: m.oid()})
	if !m.w {
		panic("sync: Unlock of unlocked RWMutex")
	}
	vrt.RaceRelease(m.id)
	m.w = false
}
func (m *RWMutex) RLock() {
	if !vrt.Active() {
		return
	}
	vrt.Yield(vrt.Op{Kind: "rlock", Obj: m.oid(), Enabled: func() bool { return !m.w && m.wwait == 0 }})
	m.readers++
	vrt.RaceAcquire(m.id)
}
func (m *RWMutex) RUnlock() {
	if !vrt.Active() {
		return
	}
	vrt.Yield(vrt.Op{Kind: "runlock", Obj: m.oid()})
	if m.readers <= 0 {
		panic("sync: RUnlock of unlocked RWMutex")
	}
	vrt.RaceReleaseMerge(m.id ^ 1)
	m.readers--
}
func (m *RWMutex) TryLock() bool {
	if !vrt.Active() {
		return true
	}
	vrt.Yield(vrt.Op{Kind: "wtrylock", Obj: m.oid()})
	if m.w || m.readers > 0 {
		vrt.Fold(0)
		return false
	}
	m.w = true
	vrt.RaceAcquire(m.id)
	vrt.RaceAcquire(m.id ^ 1)
	vrt.Fold(1)
	return true
}
func (m *RWMutex) RLocker() Locker { return (*rlocker)(m) }

type rlocker RWMutex

func (r *rlocker) Lock()   { (*RWMutex)(r).RLock() }
func (r *rlocker) Unlock() { (*RWMutex)(r).RUnlock() }

type Cond struct {
	L       Locker
	id      uint64
	waiters []*bool
}

func NewCond(l Locker) *Cond { return &Cond{L: l, id: vrt.NewObj()} }
func (c *Cond) Wait() {
	if !vrt.Active() {
		return
	}
	woken := false
	c.waiters = append(c.waiters, &woken)
	c.L.Unlock()
	vrt.Yield(vrt.Op{Kind: "condwait", Obj: c.id, Enabled: func() bool { return woken }})
	c.L.Lock()
}
func (c *Cond) Signal() {
	if !vrt.Active() {
		return
	}
	vrt.Yield(vrt.Op{Kind: "signal", Obj: c.id})
	if len(c.waiters) > 0 {
		*c.waiters[0] = true
		c.waiters = c.waiters[1:]
	}
}
func (c *Cond) Broadcast() {
	if !vrt.Active() {
		return
	}
	vrt.Yield(vrt.Op{Kind: "broadcast", Obj: c.id})
	for _, w := range c.waiters {
		*w = true
	}
	c.waiters = nil
}

type WaitGroup struct {
	id uint64
	n  int
}

func (w *WaitGroup) oid() uint64 {
	if w.id == 0 {
		w.id = vrt.NewObj()
	}
	return w.id
}
func (w *WaitGroup) Add(n int) {
	if !vrt.Active() {
		return
	}
	vrt.Yield(vrt.Op{Kind: "wgadd", Obj: w.oid()})
	if n < 0 {
		vrt.RaceReleaseMerge(w.id)
	}
	w.n += n
	if w.n < 0 {
		panic("sync: negative WaitGroup counter")
	}
}
func (w *WaitGroup) Done() { w.Add(-1) }
func (w *WaitGroup) Wait() {
	if !vrt.Active() {
		return
	}
	vrt.Yield(vrt.Op{Kind: "wgwait", Obj: w.oid(), Enabled: func() bool { return w.n <= 0 }})
	vrt.RaceAcquire(w.id)
}

// Once blocks concurrent callers until the first call's f has returned, as sync.Once does.
type Once struct {
	done bool
	m    Mutex
}

func (o *Once) Do(f func()) {
	if !vrt.Active() {
		if !o.done {
			o.done = true
			f()
		}
		return
	}
	o.m.Lock()
	defer o.m.Unlock()
	if !o.done {
		defer func() { o.done = true }()
		f()
	}
}
