// Package vsync replaces package sync in the instrumented copy of the code under test.
package vsync

import "verifrt/vrt"

type Locker interface {
	Lock()
	Unlock()
}

type Mutex struct {
	id     uint64
	locked bool
}

func (m *Mutex) oid() uint64 {
	if m.id == 0 {
		m.id = vrt.NewObj()
	}
	return m.id
}
func (m *Mutex) Lock() {
	if !vrt.Active() {
		return
	}
	vrt.Yield(vrt.Op{Kind: "lock", Obj: m.oid(), Enabled: func() bool { return !m.locked }})
	m.locked = true
	vrt.RaceAcquire(m.id)
}
func (m *Mutex) Unlock() {
	if !vrt.Active() {
		return
	}
	vrt.Yield(vrt.Op{Kind: "unlock", Obj: m.oid()})
	if !m.locked {
		panic("sync: unlock of unlocked mutex")
	}
	vrt.RaceRelease(m.id)
	m.locked = false
}
func (m *Mutex) TryLock() bool {
	if !vrt.Active() {
		return true
	}
	vrt.Yield(vrt.Op{Kind: "trylock", Obj: m.oid()})
	if m.locked {
		vrt.Fold(0)
		return false
	}
	m.locked = true
	vrt.RaceAcquire(m.id)
	vrt.Fold(1)
	return true
}

// RWMutex follows sync.RWMutex: a writer that has called Lock blocks new readers.
type RWMutex struct {
	id      uint64
	w       bool
	wwait   int
	readers int
}

func (m *RWMutex) oid() uint64 {
	if m.id == 0 {
		m.id = vrt.NewObj()
	}
	return m.id
}
func (m *RWMutex) Lock() {
	if !vrt.Active() {
		return
	}
	// step 1: announce (blocks readers arriving later); step 2: acquire
	vrt.Yield(vrt.Op{Kind: "wannounce", Obj: m.oid()})
	m.wwait++
	vrt.Yield(vrt.Op{Kind: "wlock", Obj: m.id, Enabled: func() bool { return !m.w && m.readers == 0 }})
	m.wwait--
	m.w = true
	vrt.RaceAcquire(m.id)
	vrt.RaceAcquire(m.id ^ 1)
}
func (m *RWMutex) Unlock() {
	if !vrt.Active() {
		return
	}
	vrt.Yield(vrt.Op{Kind: "wunlock", Obj: m.oid()})
	if !m.w {
		panic("sync: Unlock of unlocked RWMutex")
	}
	vrt.RaceRelease(m.id)
	m.w = false
}
func (m *RWMutex) RLock() {
	if !vrt.Active() {
		return
	}
	vrt.Yield(vrt.Op{Kind: "rlock", Obj: m.oid(), Enabled: func() bool { return !m.w && m.wwait == 0 }})
	m.readers++
	vrt.RaceAcquire(m.id)
}
func (m *RWMutex) RUnlock() {
	if !vrt.Active() {
		return
	}
	vrt.Yield(vrt.Op{Kind: "runlock", Obj: m.oid()})
	if m.readers <= 0 {
		panic("sync: RUnlock of unlocked RWMutex")
	}
	vrt.RaceReleaseMerge(m.id ^ 1)
	m.readers--
}
func (m *RWMutex) TryLock() bool {
	if !vrt.Active() {
		return true
	}
	vrt.Yield(vrt.Op{Kind: "wtrylock", Obj: m.oid()})
	if m.w || m.readers > 0 {
		vrt.Fold(0)
		return false
	}
	m.w = true
	vrt.RaceAcquire(m.id)
	vrt.RaceAcquire(m.id ^ 1)
	vrt.Fold(1)
	return true
}
func (m *RWMutex) RLocker() Locker { return (*rlocker)(m) }

type rlocker RWMutex

func (r *rlocker) Lock()   { (*RWMutex)(r).RLock() }
func (r *rlocker) Unlock() { (*RWMutex)(r).RUnlock() }

type Cond struct {
	L       Locker
	id      uint64
	waiters []*bool
}

func NewCond(l Locker) *Cond { return &Cond{L: l, id: vrt.NewObj()} }
func (c *Cond) Wait() {
	if !vrt.Active() {
		return
	}
	woken := false
	c.waiters = append(c.waiters, &woken)
	c.L.Unlock()
	vrt.Yield(vrt.Op{Kind: "condwait", Obj: c.id, Enabled: func() bool { return woken }})
	c.L.Lock()
}
func (c *Cond) Signal() {
	if !vrt.Active() {
		return
	}
	vrt.Yield(vrt.Op{Kind: "signal", Obj: c.id})
	if len(c.waiters) > 0 {
		*c.waiters[0] = true
		c.waiters = c.waiters[1:]
	}
}
func (c *Cond) Broadcast() {
	if !vrt.Active() {
		return
	}
	vrt.Yield(vrt.Op{Kind: "broadcast", Obj: c.id})
	for _, w := range c.waiters {
		*w = true
	}
	c.waiters = nil
}

type WaitGroup struct {
	id uint64
	n  int
}

func (w *WaitGroup) oid() uint64 {
	if w.id == 0 {
		w.id = vrt.NewObj()
	}
	return w.id
}
func (w *WaitGroup) Add(n int) {
	if !vrt.Active() {
		return
	}
	vrt.Yield(vrt.Op{Kind: "wgadd", Obj: w.oid()})
	if n < 0 {
		vrt.RaceReleaseMerge(w.id)
	}
	w.n += n
	if w.n < 0 {
		panic("sync: negative WaitGroup counter")
	}
}
func (w *WaitGroup) Done() { w.Add(-1) }
func (w *WaitGroup) Wait() {
	if !vrt.Active() {
		return
	}
	vrt.Yield(vrt.Op{Kind: "wgwait", Obj: w.oid(), Enabled: func() bool { return w.n <= 0 }})
	vrt.RaceAcquire(w.id)
}

// Once blocks concurrent callers until the first call's f has returned, as sync.Once does.
type Once struct {
	done bool
	m    Mutex
}

func (o *Once) Do(f func()) {
	if !vrt.Active() {
		if !o.done {
			o.done = true
			f()
		}
		return
	}
	o.m.Lock()
	defer o.m.Unlock()
	if !o.done {
		defer func() { o.done = true }()
		f()
	}
}

// Map is a scheduler-aware sync.Map: every operation is a visible operation on the map object.
type Map struct {
	id   uint64
	keys []any
	vals []any
}

func (m *Map) oid() uint64 {
	if m.id == 0 {
		m.id = vrt.NewObj()
	}
	return m.id
}
func (m *Map) step(kind string) {
	if vrt.Active() {
		vrt.Yield(vrt.Op{Kind: kind, Obj: m.oid()})
		vrt.RaceAcquire(m.id)
		vrt.RaceReleaseMerge(m.id)
	}
}
func (m *Map) find(k any) int {
	for i, x := range m.keys {
		if x == k {
			return i
		}
	}
	return -1
}
func (m *Map) Load(k any) (any, bool) {
	m.step("mapload")
	if i := m.find(k); i >= 0 {
		return m.vals[i], true
	}
	return nil, false
}
func (m *Map) Store(k, v any) {
	m.step("mapstore")
	if i := m.find(k); i >= 0 {
		m.vals[i] = v
		return
	}
	m.keys, m.vals = append(m.keys, k), append(m.vals, v)
}
func (m *Map) LoadOrStore(k, v any) (any, bool) {
	m.step("maploadorstore")
	if i := m.find(k); i >= 0 {
		return m.vals[i], true
	}
	m.keys, m.vals = append(m.keys, k), append(m.vals, v)
	return v, false
}
func (m *Map) LoadAndDelete(k any) (any, bool) {
	m.step("maploaddelete")
	if i := m.find(k); i >= 0 {
		v := m.vals[i]
		m.keys = append(m.keys[:i:i], m.keys[i+1:]...)
		m.vals = append(m.vals[:i:i], m.vals[i+1:]...)
		return v, true
	}
	return nil, false
}
func (m *Map) Delete(k any) { m.LoadAndDelete(k) }
func (m *Map) Swap(k, v any) (any, bool) {
	m.step("mapswap")
	if i := m.find(k); i >= 0 {
		old := m.vals[i]
		m.vals[i] = v
		return old, true
	}
	m.keys, m.vals = append(m.keys, k), append(m.vals, v)
	return nil, false
}
func (m *Map) CompareAndSwap(k, old, new any) bool {
	m.step("mapcas")
	if i := m.find(k); i >= 0 && m.vals[i] == old {
		m.vals[i] = new
		return true
	}
	return false
}
func (m *Map) Range(f func(k, v any) bool) {
	m.step("maprange")
	ks, vs := append([]any(nil), m.keys...), append([]any(nil), m.vals...)
	for i := range ks {
		if !f(ks[i], vs[i]) {
			return
		}
	}
}
func (m *Map) Clear() { m.step("mapclear"); m.keys, m.vals = nil, nil }

// Pool re-uses objects eagerly and deterministically (last in, first out): the most
// adversarial behaviour a sync.Pool may show, so that state left in a pooled object is
// handed to the next user.
type Pool struct {
	New   func() any
	id    uint64
	items []any
}

func (p *Pool) step(kind string) {
	if vrt.Active() {
		if p.id == 0 {
			p.id = vrt.NewObj()
			// a package-level pool must not carry objects (or its identity) into the next execution
			vrt.OnCleanup(func() { p.id, p.items = 0, nil })
		}
		vrt.Yield(vrt.Op{Kind: kind, Obj: p.id})
		vrt.RaceAcquire(p.id)
		vrt.RaceReleaseMerge(p.id)
	}
}

func (p *Pool) Get() any {
	p.step("poolget")
	if n := len(p.items); n > 0 {
		x := p.items[n-1]
		p.items = p.items[:n-1]
		return x
	}
	if p.New != nil {
		return p.New()
	}
	return nil
}

func (p *Pool) Put(x any) {
	if x == nil {
		return
	}
	p.step("poolput")
	p.items = append(p.items, x)
}

// OnceFunc / OnceValue as in package sync.
func OnceFunc(f func()) func() {
	var o Once
	return func() { o.Do(f) }
}
func OnceValue[T any](f func() T) func() T {
	var o Once
	var v T
	return func() T { o.Do(func() { v = f() }); return v }
}
