// Package vnet replaces package net in the instrumented copy: an in-memory
// network whose every operation is a scheduling point, with a wire tap, per
// direction latency and fault injection.
package vnet

import (
	"errors"
	"fmt"
	"io"
	"net"
	"syscall"
	"time"

	"verifrt/vcontext"
	"verifrt/vrt"
)

type Addr = net.Addr
type OpError = net.OpError
type IPAddr = net.IPAddr
type IP = net.IP
type Error = net.Error

var ErrClosed = net.ErrClosed

func ParseIP(s string) IP { return net.ParseIP(s) }

type Conn interface {
	Read(b []byte) (int, error)
	Write(b []byte) (int, error)
	Close() error
	LocalAddr() Addr
	RemoteAddr() Addr
	SetDeadline(t time.Time) error
	SetReadDeadline(t time.Time) error
	SetWriteDeadline(t time.Time) error
}

// half is one direction of a connection.
type half struct {
	id       uint64
	buf      []byte
	closed   bool // writer closed: reader sees EOF after draining
	reset    bool // connection reset: reader and writer fail at once
	window   int
	Latency  int64
	flight   [][]byte // segments written and not yet delivered, oldest first
	inflight int
}

type TCPConn struct {
	in, out      *half
	closed       bool
	name         string
	peer         *TCPConn
	Index        int // creation order within the execution
	readDeadline *vrt.Timer
	rdExpired    bool
	ReadBytes    int // bytes this end has consumed so far
}

// WireEvent is one Write as seen on the wire.
type WireEvent struct {
	From string // local address of the writer
	To   string
	Conn int // index of the writing end
	Data []byte
	At   int64
}

// State is the network of one execution.
type State struct {
	exec      *vrt.Exec
	listeners []*TCPListener
	Tap       []WireEvent
	Conns     []*TCPConn
	Dials     int
	Ops       int // network operations performed by dial/read/write/accept/close so far
	// FaultAt, if non-nil, is consulted before every network operation with its
	// running number, the operation and the connection's local name; a non-empty
	// answer injects that fault: "reset" (both directions fail), "refuse" (dial).
	FaultAt func(n int, op string, local string) string
	// Window is the receive window given to new connections.
	Window int
	// DialHook lets a scenario observe/deny dials.
	down []string // addresses that refuse connections although a listener exists
}

var st *State

// Net returns the network of the running execution (created on first use).
func Net() *State {
	if st == nil || st.exec != vrt.S {
		st = &State{exec: vrt.S, Window: 1 << 22}
	}
	return st
}

// Last returns the network state of the most recent execution (for checks that run after it ended).
func Last() *State { return st }

// SetDown makes an address refuse connections (or accept them again) although a listener exists.
func (n *State) SetDown(address string, down bool) {
	var keep []string
	for _, a := range n.down {
		if a != address {
			keep = append(keep, a)
		}
	}
	if down {
		keep = append(keep, address)
	}
	n.down = keep
}

func (n *State) isDown(address string) bool {
	for _, a := range n.down {
		if a == address {
			return true
		}
	}
	return false
}

func (n *State) listener(address string) *TCPListener {
	for _, l := range n.listeners {
		if l.address == address {
			return l
		}
	}
	return nil
}

func (n *State) fault(op, local string) string {
	n.Ops++
	if n.FaultAt != nil {
		return n.FaultAt(n.Ops, op, local)
	}
	return ""
}

func (n *State) pipe(a, b string) (*TCPConn, *TCPConn) {
	h1 := &half{id: vrt.NewObj(), window: n.Window}
	h2 := &half{id: vrt.NewObj(), window: n.Window}
	c1 := &TCPConn{in: h1, out: h2, name: a, Index: len(n.Conns)}
	c2 := &TCPConn{in: h2, out: h1, name: b, Index: len(n.Conns) + 1}
	c1.peer, c2.peer = c2, c1
	n.Conns = append(n.Conns, c1, c2)
	return c1, c2
}

// Pipe creates a connected pair outside any listener (for channel-level scenarios).
func Pipe(a, b string) (*TCPConn, *TCPConn) { return Net().pipe(a, b) }

var errReset = &net.OpError{Op: "read", Net: "tcp", Err: syscall.ECONNRESET}

type timeoutErr struct{}

func (timeoutErr) Error() string   { return "i/o timeout" }
func (timeoutErr) Timeout() bool   { return true }
func (timeoutErr) Temporary() bool { return true }

func (c *TCPConn) Read(b []byte) (int, error) {
	if !vrt.Active() {
		return 0, io.EOF
	}
	n := Net()
	vrt.Yield(vrt.Op{Kind: "read", Obj: c.in.id, Enabled: func() bool {
		return len(c.in.buf) > 0 || c.in.closed || c.in.reset || c.closed || c.rdExpired
	}})
	if f := n.fault("read", c.name); f == "reset" {
		c.Reset()
	}
	vrt.RaceAcquire(c.in.id)
	if c.closed {
		return 0, &net.OpError{Op: "read", Net: "tcp", Err: net.ErrClosed}
	}
	if c.in.reset {
		return 0, errReset
	}
	if len(c.in.buf) == 0 {
		if c.rdExpired {
			return 0, &net.OpError{Op: "read", Net: "tcp", Err: timeoutErr{}}
		}
		return 0, io.EOF
	}
	k := copy(b, c.in.buf)
	c.in.buf = c.in.buf[k:]
	c.ReadBytes += k
	vrt.Fold(uint64(k))
	return k, nil
}

func (c *TCPConn) Write(b []byte) (int, error) {
	if !vrt.Active() {
		return 0, net.ErrClosed
	}
	n := Net()
	vrt.Yield(vrt.Op{Kind: "write", Obj: c.out.id, Enabled: func() bool {
		return c.closed || c.out.closed || c.out.reset || len(c.out.buf)+c.out.inflight+len(b) <= c.out.window || len(c.out.buf)+c.out.inflight == 0
	}})
	f := n.fault("write", c.name)
	if f == "reset" {
		c.Reset()
	}
	if c.closed {
		return 0, &net.OpError{Op: "write", Net: "tcp", Err: net.ErrClosed}
	}
	if f == "drop" && !c.out.reset && !c.out.closed {
		// the peer has stopped reading for good (a stalled process): the bytes are accepted and never delivered
		n.Tap = append(n.Tap, WireEvent{From: c.name, To: c.peer.name, Conn: c.Index, Data: append([]byte(nil), b...), At: vrt.Now()})
		return len(b), nil
	}
	if c.out.reset || c.out.closed {
		return 0, &net.OpError{Op: "write", Net: "tcp", Err: syscall.EPIPE}
	}
	// the peer has closed its end: the bytes leave this host and are discarded
	vrt.RaceRelease(c.out.id)
	data := append([]byte(nil), b...)
	if c.peer.closed {
		n.Tap = append(n.Tap, WireEvent{From: c.name, To: c.peer.name, Conn: c.Index, Data: data, At: vrt.Now()})
		return len(b), nil
	}
	if c.out.Latency > 0 {
		h := c.out
		h.inflight += len(data)
		// a byte stream never reorders: whichever delivery timer fires first delivers the oldest segment in flight
		h.flight = append(h.flight, data)
		vrt.AddTimer(h.Latency, func() {
			d := h.flight[0]
			h.flight = h.flight[1:]
			h.inflight -= len(d)
			h.buf = append(h.buf, d...)
		})
	} else {
		c.out.buf = append(c.out.buf, data...)
	}
	n.Tap = append(n.Tap, WireEvent{From: c.name, To: c.peer.name, Conn: c.Index, Data: data, At: vrt.Now()})
	return len(b), nil
}

// Inject delivers bytes to this end's reader as if the peer had written them (not tapped).
func (c *TCPConn) Inject(b []byte) { c.in.buf = append(c.in.buf, b...) }

func (c *TCPConn) Close() error {
	if !vrt.Active() {
		return nil
	}
	vrt.Yield(vrt.Op{Kind: "cclose", Obj: c.out.id, Reads: []uint64{c.in.id}})
	Net().fault("close", c.name)
	if c.closed {
		return &net.OpError{Op: "close", Net: "tcp", Err: net.ErrClosed}
	}
	c.closed = true
	c.out.closed = true
	vrt.RaceRelease(c.out.id)
	vrt.Touch(c.in.id)
	return nil
}

// Reset breaks the connection in both directions at once (no yield: usable from fault hooks).
func (c *TCPConn) Reset() {
	c.in.reset, c.out.reset = true, true
}

// CloseWrite half-closes (peer sees EOF after draining).
func (c *TCPConn) CloseWrite() error {
	vrt.Yield(vrt.Op{Kind: "cclosew", Obj: c.out.id})
	c.out.closed = true
	return nil
}

type addr string

func (a addr) Network() string { return "tcp" }
func (a addr) String() string  { return string(a) }

func (c *TCPConn) RemoteAddr() Addr              { return addr(c.peer.name) }
func (c *TCPConn) LocalAddr() Addr               { return addr(c.name) }
func (c *TCPConn) SetDeadline(t time.Time) error { return c.SetReadDeadline(t) }
func (c *TCPConn) SetReadDeadline(t time.Time) error {
	if !vrt.Active() {
		return nil
	}
	if c.readDeadline != nil {
		c.readDeadline.Stop()
		c.readDeadline = nil
	}
	c.rdExpired = false
	if !t.IsZero() {
		d := int64(t.Sub(vtimeNow()))
		c.readDeadline = vrt.AddTimer(d, func() { c.rdExpired = true })
	}
	return nil
}
func (c *TCPConn) SetWriteDeadline(t time.Time) error     { return nil }
func (c *TCPConn) SetNoDelay(bool) error                  { return nil }
func (c *TCPConn) SetKeepAlive(bool) error                { return nil }
func (c *TCPConn) SetKeepAlivePeriod(time.Duration) error { return nil }
func (c *TCPConn) SetLinger(int) error                    { return nil }

// SetLatency sets the one-way delay of data written on this end.
func (c *TCPConn) SetLatency(d time.Duration) { c.out.Latency = int64(d) }

// SetWindow bounds how many unread bytes the peer of this end may have outstanding towards it.
func (c *TCPConn) SetWindow(n int) { c.in.window = n }

// Pending is the number of bytes written towards this end and not yet read.
func (c *TCPConn) Pending() int { return len(c.in.buf) }

var epoch = time.Date(2024, 1, 1, 0, 0, 0, 0, time.UTC)

func vtimeNow() time.Time { return epoch.Add(time.Duration(vrt.Now())) }

// ---- listeners / dialing ----

type Dialer struct {
	Timeout   time.Duration
	Deadline  time.Time
	KeepAlive time.Duration
	LocalAddr Addr
}

func (d *Dialer) DialContext(ctx vcontext.Context, network, address string) (Conn, error) {
	if !vrt.Active() {
		return nil, net.ErrClosed
	}
	n := Net()
	vrt.Yield(vrt.Op{Kind: "dial", Obj: 0xd1a1})
	n.Dials++
	f := n.fault("dial", "client:"+address)
	if ctx != nil && ctx.Err() != nil {
		return nil, &net.OpError{Op: "dial", Net: "tcp", Err: ctx.Err()}
	}
	l := n.listener(address)
	if l == nil || l.closed || f == "refuse" || n.isDown(address) {
		vrt.Fold(0)
		return nil, &net.OpError{Op: "dial", Net: "tcp", Err: syscall.ECONNREFUSED}
	}
	c, s := n.pipe(fmt.Sprintf("client%d:%s", n.Dials, address), address)
	l.backlog = append(l.backlog, s)
	vrt.Touch(l.id)
	return c, nil
}

func (d *Dialer) Dial(network, address string) (Conn, error) {
	return d.DialContext(vcontext.Background(), network, address)
}

type Listener interface {
	Accept() (Conn, error)
	Close() error
	Addr() Addr
}
type TCPListener struct {
	id      uint64
	address string
	backlog []*TCPConn
	closed  bool
}

func (l *TCPListener) AcceptTCP() (*TCPConn, error) {
	if !vrt.Active() {
		return nil, net.ErrClosed
	}
	vrt.Yield(vrt.Op{Kind: "accept", Obj: l.id, Enabled: func() bool { return len(l.backlog) > 0 || l.closed }})
	Net().fault("accept", l.address)
	if l.closed {
		return nil, &net.OpError{Op: "accept", Net: "tcp", Err: net.ErrClosed}
	}
	c := l.backlog[0]
	l.backlog = l.backlog[1:]
	return c, nil
}
func (l *TCPListener) Accept() (Conn, error) { return l.AcceptTCP() }
func (l *TCPListener) Close() error {
	if !vrt.Active() {
		return nil
	}
	vrt.Yield(vrt.Op{Kind: "lclose", Obj: l.id})
	if l.closed {
		return &net.OpError{Op: "close", Net: "tcp", Err: net.ErrClosed}
	}
	l.closed = true
	// connections still in the backlog are reset, as the kernel does
	for _, c := range l.backlog {
		c.Reset()
	}
	n := Net()
	var keep []*TCPListener
	for _, x := range n.listeners {
		if x != l {
			keep = append(keep, x)
		}
	}
	n.listeners = keep
	return nil
}
func (l *TCPListener) Addr() Addr { return addr(l.address) }

type ListenConfig struct{ KeepAlive time.Duration }

func (lc *ListenConfig) Listen(ctx vcontext.Context, network, address string) (Listener, error) {
	n := Net()
	if n.listener(address) != nil {
		return nil, &net.OpError{Op: "listen", Net: "tcp", Err: syscall.EADDRINUSE}
	}
	l := &TCPListener{id: vrt.NewObj(), address: address}
	n.listeners = append(n.listeners, l)
	return l, nil
}

type Resolver struct{ PreferGo bool }

func (r *Resolver) LookupIPAddr(ctx vcontext.Context, host string) ([]IPAddr, error) {
	if ip := net.ParseIP(host); ip != nil {
		return []IPAddr{{IP: ip}}, nil
	}
	if host == "" {
		return nil, errors.New("lookup: no such host")
	}
	return []IPAddr{{IP: net.IPv4(127, 0, 0, 1)}}, nil
}
func JoinHostPort(h, p string) string                 { return net.JoinHostPort(h, p) }
func SplitHostPort(hp string) (string, string, error) { return net.SplitHostPort(hp) }
