package evid

import (
	"encoding/binary"
	"fmt"
	"os"
	"os/exec"
	"path/filepath"
	"runtime"
	"strconv"
	"strings"
	"sync"
	"syscall"
)

// Workers is the number of worker processes checks shard over.
func Workers() int {
	if s := os.Getenv("VERIF_WORKERS"); s != "" {
		if n, err := strconv.Atoi(s); err == nil && n > 0 {
			return n
		}
	}
	n := runtime.NumCPU()
	if n > 16 {
		n = 16
	}
	return n
}

// ShardInfo tells a worker which slice of the case space is its own.
type ShardInfo struct {
	Index, Count int
}

// Mine reports whether case number i belongs to this shard.
func (s ShardInfo) Mine(i int64) bool { return s.Count <= 1 || int(i%int64(s.Count)) == s.Index }

var pubBuf []byte

// Publish records (in a memory-mapped file the parent can read after the
// worker died) the case the worker is about to run. Costs no system call.
func Publish(desc string) {
	if pubBuf == nil {
		return
	}
	if len(desc) > len(pubBuf)-4 {
		desc = desc[:len(pubBuf)-4]
	}
	binary.LittleEndian.PutUint32(pubBuf, 0)
	copy(pubBuf[4:], desc)
	binary.LittleEndian.PutUint32(pubBuf, uint32(len(desc)))
}

const pubSize = 1 << 16

// WorkerDeath describes a worker process that died without reporting.
type WorkerDeath struct {
	Shard    int
	LastCase string
	ExitErr  string
	Stderr   string
}

// Sharded runs fn in Workers() child processes (re-executing the current
// binary with VERIF_SHARD=i/n) and merges their partial results into r.
// In a child it runs fn on a fresh Run and never returns.
// memLimit, if non-zero, is applied to each worker as an address-space limit (bytes).
func Sharded(r *Run, memLimit uint64, fn func(s ShardInfo, w *Run)) []WorkerDeath {
	if sh := os.Getenv("VERIF_SHARD"); sh != "" {
		var s ShardInfo
		fmt.Sscanf(sh, "%d/%d", &s.Index, &s.Count)
		if p := os.Getenv("VERIF_SHARD_PUB"); p != "" {
			if f, err := os.OpenFile(p, os.O_RDWR, 0); err == nil {
				pubBuf, _ = syscall.Mmap(int(f.Fd()), 0, pubSize, syscall.PROT_READ|syscall.PROT_WRITE, syscall.MAP_SHARED)
			}
		}
		if memLimit > 0 {
			lim := syscall.Rlimit{Cur: memLimit, Max: memLimit}
			syscall.Setrlimit(syscall.RLIMIT_AS, &lim)
		}
		w := New(r.ID)
		fn(s, w)
		w.WritePartial(os.Getenv("VERIF_SHARD_OUT"))
		os.Exit(0)
	}
	n := Workers()
	dir, err := os.MkdirTemp(scratchBase(), "shards-")
	if err != nil {
		EngineError(r.ID, "scratch: %v", err)
	}
	defer os.RemoveAll(dir)
	var wg sync.WaitGroup
	var mu sync.Mutex
	var deaths []WorkerDeath
	for i := 0; i < n; i++ {
		wg.Add(1)
		go func(i int) {
			defer wg.Done()
			out := filepath.Join(dir, fmt.Sprintf("out-%d.json", i))
			pub := filepath.Join(dir, fmt.Sprintf("pub-%d", i))
			f, _ := os.Create(pub)
			f.Truncate(pubSize)
			f.Close()
			cmd := exec.Command(os.Args[0], os.Args[1:]...)
			cmd.Env = append(os.Environ(), fmt.Sprintf("VERIF_SHARD=%d/%d", i, n), "VERIF_SHARD_OUT="+out, "VERIF_SHARD_PUB="+pub, "GOMAXPROCS=2")
			var stderr strings.Builder
			cmd.Stderr = &tailWriter{b: &stderr, max: 16384}
			cmd.Stdout = os.Stderr
			err := cmd.Run()
			mu.Lock()
			defer mu.Unlock()
			if merr := r.MergeFile(out); merr != nil || err != nil {
				d := WorkerDeath{Shard: i, Stderr: stderr.String()}
				if err != nil {
					d.ExitErr = err.Error()
				} else {
					d.ExitErr = merr.Error()
				}
				if b, e := os.ReadFile(pub); e == nil && len(b) >= 4 {
					l := binary.LittleEndian.Uint32(b)
					if int(l) <= len(b)-4 {
						d.LastCase = string(b[4 : 4+l])
					}
				}
				deaths = append(deaths, d)
			}
		}(i)
	}
	wg.Wait()
	return deaths
}

type tailWriter struct {
	b   *strings.Builder
	max int
}

func (t *tailWriter) Write(p []byte) (int, error) {
	if t.b.Len()+len(p) > t.max {
		s := t.b.String()
		if len(s) > t.max/2 {
			s = s[len(s)-t.max/2:]
		}
		t.b.Reset()
		t.b.WriteString(s)
	}
	if len(p) > t.max/2 {
		t.b.Write(p[len(p)-t.max/2:])
	} else {
		t.b.Write(p)
	}
	return len(p), nil
}

func scratchBase() string {
	b := os.Getenv("VERIF_SCRATCH")
	if b == "" {
		b = "/var/tmp/verif-work"
	}
	os.MkdirAll(b, 0o755)
	return b
}

// Scratch returns the base directory for temporary files (outside /repo and /verif).
func Scratch() string { return scratchBase() }
