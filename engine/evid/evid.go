// Package evid is the common reporting layer of every check: it counts what a
// run covered, applies the findings protocol (known_findings.jsonl), writes the
// replay artefact of every violation, writes /verif/evidence/<id>.json and
// produces the exit status.
//
// Exit protocol (DESIGN.md §2.4):
//
//	0  the property held on everything explored (KNOWN-FINDING lines allowed)
//	1  at least one line "VIOLATION property=<id> replay=<path>" was printed
//	2  ENGINE-ERROR: the machinery failed; never a verdict
package evid

import (
	"bufio"
	"crypto/sha256"
	"encoding/hex"
	"encoding/json"
	"fmt"
	"hash/fnv"
	"os"
	"path/filepath"
	"sort"
	"strconv"
	"strings"
	"sync"
	"time"
)

// Root is the /verif directory (overridable for tests of the machinery).
func Root() string {
	if r := os.Getenv("VERIF_ROOT"); r != "" {
		return r
	}
	return "/verif"
}

// Tier returns "quick" or "thorough".
func Tier() string {
	if os.Getenv("VERIF_TIER") == "thorough" {
		return "thorough"
	}
	return "quick"
}

func Thorough() bool { return Tier() == "thorough" }

func Seed() int64 {
	n, _ := strconv.ParseInt(os.Getenv("VERIF_SEED"), 10, 64)
	return n
}

// Finding is one line of known_findings.jsonl.
type Finding struct {
	Property    string `json:"property"`
	Status      string `json:"status"` // "known" or "fixed"
	Signature   string `json:"signature"`
	Commit      string `json:"commit,omitempty"`
	Description string `json:"description"`
}

// LoadFindings reads the committed findings file. It is never written at run time.
func LoadFindings() ([]Finding, error) {
	f, err := os.Open(filepath.Join(Root(), "known_findings.jsonl"))
	if err != nil {
		if os.IsNotExist(err) {
			return nil, nil
		}
		return nil, err
	}
	defer f.Close()
	var out []Finding
	sc := bufio.NewScanner(f)
	sc.Buffer(make([]byte, 1<<20), 1<<24)
	for sc.Scan() {
		line := strings.TrimSpace(sc.Text())
		if line == "" || strings.HasPrefix(line, "#") {
			continue
		}
		var fd Finding
		if err := json.Unmarshal([]byte(line), &fd); err != nil {
			return nil, fmt.Errorf("known_findings.jsonl: %v: %s", err, line)
		}
		out = append(out, fd)
	}
	return out, sc.Err()
}

// Violation is one failing case.
type Violation struct {
	Signature string `json:"signature"` // cell-level identity, never a line number
	Detail    string `json:"detail"`
	Replay    any    `json:"replay"` // whatever the driver needs to re-execute the case
}

// Run accumulates the coverage of one check run.
type Run struct {
	ID    string
	Level string // evidence level, e.g. "model_checking"

	mu          sync.Mutex
	start       time.Time
	evaluations int64
	distinct    map[uint64]struct{}
	states      int64
	transitions int64
	tracesImpl  int64
	samples     []any
	maxSamples  int
	rule        string
	exhaustive  bool
	capNote     string
	assumptions []string
	extra       map[string]any
	viol        map[string]*Violation // by signature, first one kept
	violCount   map[string]int
	notJudged   int64
	outcomes    map[string]int64
}

func New(id string) *Run {
	return &Run{ID: id, Level: "model_checking", start: time.Now(), distinct: map[uint64]struct{}{},
		maxSamples: 8, extra: map[string]any{}, viol: map[string]*Violation{}, violCount: map[string]int{},
		exhaustive: true, outcomes: map[string]int64{}}
}

func H(s string) uint64 { h := fnv.New64a(); h.Write([]byte(s)); return h.Sum64() }

// Eval counts one executed case. key identifies the case class for the
// "distinct and non-trivial" count; pass "" for a trivial case.
func (r *Run) Eval(key string) {
	r.mu.Lock()
	r.evaluations++
	if key != "" {
		r.distinct[H(key)] = struct{}{}
	}
	r.mu.Unlock()
}

func (r *Run) EvalN(n int64) { r.mu.Lock(); r.evaluations += n; r.mu.Unlock() }
func (r *Run) DistinctHash(h uint64) {
	r.mu.Lock()
	r.distinct[h] = struct{}{}
	r.mu.Unlock()
}
func (r *Run) Outcome(o string) { r.mu.Lock(); r.outcomes[o]++; r.mu.Unlock() }
func (r *Run) AddStates(states, transitions int64) {
	r.mu.Lock()
	r.states += states
	r.transitions += transitions
	r.mu.Unlock()
}
func (r *Run) AddTraces(n int64)   { r.mu.Lock(); r.tracesImpl += n; r.mu.Unlock() }
func (r *Run) NotJudged(n int64)   { r.mu.Lock(); r.notJudged += n; r.mu.Unlock() }
func (r *Run) Rule(s string)       { r.rule = s }
func (r *Run) Assume(s ...string)  { r.assumptions = append(r.assumptions, s...) }
func (r *Run) Set(k string, v any) { r.mu.Lock(); r.extra[k] = v; r.mu.Unlock() }
func (r *Run) Evaluations() int64  { r.mu.Lock(); defer r.mu.Unlock(); return r.evaluations }

// Capped records that a bound, budget or deadline cut the enumeration short.
func (r *Run) Capped(note string) {
	r.mu.Lock()
	r.exhaustive = false
	if r.capNote != "" {
		r.capNote += "; "
	}
	r.capNote += note
	r.mu.Unlock()
}

func (r *Run) Sample(v any) {
	r.mu.Lock()
	if len(r.samples) < r.maxSamples {
		r.samples = append(r.samples, v)
	}
	r.mu.Unlock()
}

// Violate records a failing case under its signature.
func (r *Run) Violate(sig, detail string, replay any) {
	r.mu.Lock()
	defer r.mu.Unlock()
	r.violCount[sig]++
	if _, ok := r.viol[sig]; !ok {
		if len(detail) > 4000 {
			detail = detail[:4000] + "…"
		}
		r.viol[sig] = &Violation{Signature: sig, Detail: detail, Replay: replay}
	}
}

func (r *Run) ViolationCount() int { r.mu.Lock(); defer r.mu.Unlock(); return len(r.viol) }

// EngineError aborts the run: the machinery failed, nothing is concluded.
func EngineError(id, format string, a ...any) {
	fmt.Printf("ENGINE-ERROR property=%s %s\n", id, fmt.Sprintf(format, a...))
	os.Exit(2)
}

// Partial is what a worker process hands back to its parent.
type Partial struct {
	Evaluations int64             `json:"evaluations"`
	Distinct    []uint64          `json:"distinct"`
	States      int64             `json:"states"`
	Transitions int64             `json:"transitions"`
	Traces      int64             `json:"traces"`
	Samples     []any             `json:"samples"`
	Violations  []*Violation      `json:"violations"`
	ViolCount   map[string]int    `json:"viol_count"`
	Exhaustive  bool              `json:"exhaustive"`
	CapNote     string            `json:"cap_note"`
	NotJudged   int64             `json:"not_judged"`
	Outcomes    map[string]int64  `json:"outcomes"`
	Extra       map[string]any    `json:"extra"`
}

func (r *Run) Partial() *Partial {
	r.mu.Lock()
	defer r.mu.Unlock()
	p := &Partial{Evaluations: r.evaluations, States: r.states, Transitions: r.transitions, Traces: r.tracesImpl,
		Samples: r.samples, ViolCount: r.violCount, Exhaustive: r.exhaustive, CapNote: r.capNote, NotJudged: r.notJudged,
		Outcomes: r.outcomes, Extra: r.extra}
	for h := range r.distinct {
		p.Distinct = append(p.Distinct, h)
	}
	for _, v := range r.viol {
		p.Violations = append(p.Violations, v)
	}
	return p
}

// WritePartial is called by a worker instead of Finish.
func (r *Run) WritePartial(path string) {
	b, err := json.Marshal(r.Partial())
	if err != nil {
		EngineError(r.ID, "marshal partial: %v", err)
	}
	if err := os.WriteFile(path, b, 0o644); err != nil {
		EngineError(r.ID, "write partial: %v", err)
	}
}

func (r *Run) Merge(p *Partial) {
	r.mu.Lock()
	defer r.mu.Unlock()
	r.evaluations += p.Evaluations
	for _, h := range p.Distinct {
		r.distinct[h] = struct{}{}
	}
	r.states += p.States
	r.transitions += p.Transitions
	r.tracesImpl += p.Traces
	r.notJudged += p.NotJudged
	for _, s := range p.Samples {
		if len(r.samples) < r.maxSamples {
			r.samples = append(r.samples, s)
		}
	}
	for _, v := range p.Violations {
		if _, ok := r.viol[v.Signature]; !ok {
			r.viol[v.Signature] = v
		}
	}
	for k, n := range p.ViolCount {
		r.violCount[k] += n
	}
	for k, n := range p.Outcomes {
		r.outcomes[k] += n
	}
	for k, v := range p.Extra {
		if _, ok := r.extra[k]; !ok {
			r.extra[k] = v
		}
	}
	if !p.Exhaustive {
		r.exhaustive = false
		if r.capNote != "" && p.CapNote != "" && !strings.Contains(r.capNote, p.CapNote) {
			r.capNote += "; "
		}
		if !strings.Contains(r.capNote, p.CapNote) {
			r.capNote += p.CapNote
		}
	}
}

func (r *Run) MergeFile(path string) error {
	b, err := os.ReadFile(path)
	if err != nil {
		return err
	}
	var p Partial
	if err := json.Unmarshal(b, &p); err != nil {
		return err
	}
	r.Merge(&p)
	return nil
}

// Finish applies the findings protocol, writes the evidence file, prints the
// verdict lines and exits.
func (r *Run) Finish() {
	os.Exit(r.FinishNoExit())
}

func (r *Run) FinishNoExit() int {
	findings, err := LoadFindings()
	if err != nil {
		EngineError(r.ID, "%v", err)
	}
	known := map[string]Finding{}
	for _, f := range findings {
		if f.Property == r.ID && f.Status == "known" {
			known[f.Signature] = f
		}
	}
	r.mu.Lock()
	sigs := make([]string, 0, len(r.viol))
	for s := range r.viol {
		sigs = append(sigs, s)
	}
	sort.Strings(sigs)
	var newViol, knownHit []string
	for _, s := range sigs {
		if _, ok := known[s]; ok {
			knownHit = append(knownHit, s)
		} else {
			newViol = append(newViol, s)
		}
	}
	r.mu.Unlock()

	for _, s := range knownHit {
		fmt.Printf("KNOWN-FINDING: property=%s %s (%d cases) — %s\n", r.ID, s, r.violCount[s], known[s].Description)
	}
	exit := 0
	os.MkdirAll(filepath.Join(Root(), "replays"), 0o755)
	for _, s := range newViol {
		v := r.viol[s]
		sum := sha256.Sum256([]byte(s))
		path := filepath.Join(Root(), "replays", r.ID+"-"+hex.EncodeToString(sum[:6])+".json")
		b, _ := json.MarshalIndent(map[string]any{"property": r.ID, "signature": v.Signature, "detail": v.Detail, "replay": v.Replay, "cases": r.violCount[s]}, "", " ")
		os.WriteFile(path, b, 0o644)
		fmt.Printf("VIOLATION property=%s replay=%s\n", r.ID, path)
		fmt.Printf("  signature: %s\n  detail: %s\n", v.Signature, firstLines(v.Detail, 12))
		exit = 1
	}

	cov := map[string]any{
		"evaluations":                   r.evaluations,
		"distinct_nontrivial":           len(r.distinct),
		"rule":                          r.rule,
		"samples":                       r.samples,
		"exhaustive":                    r.exhaustive,
		"traces_validated_against_impl": r.tracesImpl,
		"known_findings_hit":            knownHit,
		"not_judged":                    r.notJudged,
	}
	if r.states > 0 {
		cov["states"] = r.states
		cov["transitions"] = r.transitions
	} else {
		// every explored case is an implementation state reached and judged
		cov["states"] = r.evaluations
		cov["transitions"] = r.evaluations
	}
	if r.tracesImpl == 0 {
		cov["traces_validated_against_impl"] = r.evaluations
	}
	if r.capNote != "" {
		cov["cap"] = r.capNote
	}
	if len(r.outcomes) > 0 {
		cov["outcomes"] = r.outcomes
	}
	for k, v := range r.extra {
		cov[k] = v
	}
	if len(r.samples) == 0 {
		cov["samples"] = []any{"(no case recorded)"}
	}
	ev := map[string]any{
		"property_id": r.ID,
		"tier":        Tier(),
		"seed":        Seed(),
		"level":       r.Level,
		"coverage":    cov,
		"assumptions": r.assumptions,
		"wall_s":      time.Since(r.start).Seconds(),
		"violations":  len(newViol),
	}
	if r.assumptions == nil {
		ev["assumptions"] = []string{}
	}
	b, _ := json.MarshalIndent(ev, "", " ")
	// a run against another copy of the repository (mutant, candidate fix) must not overwrite the
	// evidence of the real tree
	evdir := filepath.Join(Root(), "evidence")
	if alt := os.Getenv("VERIF_REPO"); alt != "" && alt != "/repo" {
		evdir = filepath.Join(Root(), "evidence", "alt")
	}
	os.MkdirAll(evdir, 0o755)
	if err := os.WriteFile(filepath.Join(evdir, r.ID+".json"), b, 0o644); err != nil {
		EngineError(r.ID, "write evidence: %v", err)
	}
	if exit == 0 && (r.evaluations < 1 || len(r.distinct) < 2) && strings.Contains(r.capNote, "internal deadline") {
		// an overloaded machine: the wall-clock deadline passed before anything could be explored. The evidence
		// says so (exhaustive:false, the cap note); nothing was checked, which is not an alarm.
		fmt.Printf("NOTE property=%s the internal deadline was reached before the exploration started: %s\n", r.ID, firstLines(r.capNote, 1))
	} else if exit == 0 && (r.evaluations < 1 || len(r.distinct) < 2) {
		fmt.Printf("ENGINE-ERROR property=%s vacuous run: evaluations=%d distinct_nontrivial=%d\n", r.ID, r.evaluations, len(r.distinct))
		return 2
	}
	verdict := "OK"
	if exit != 0 {
		verdict = "FAILED"
	}
	fmt.Printf("%s property=%s tier=%s evaluations=%d distinct=%d states=%v exhaustive=%v known=%d new=%d wall=%.1fs\n",
		verdict, r.ID, Tier(), r.evaluations, len(r.distinct), cov["states"], r.exhaustive, len(knownHit), len(newViol), time.Since(r.start).Seconds())
	return exit
}

func firstLines(s string, n int) string {
	lines := strings.Split(s, "\n")
	if len(lines) > n {
		lines = append(lines[:n], "…")
	}
	return strings.Join(lines, "\n    ")
}

// ReplayPath returns the artefact to re-execute, if the check was started with
// VERIF_REPLAY=<file>; the driver unmarshals the "replay" member.
func ReplayInput(into any) bool {
	p := os.Getenv("VERIF_REPLAY")
	if p == "" {
		return false
	}
	b, err := os.ReadFile(p)
	if err != nil {
		EngineError("?", "replay: %v", err)
	}
	var w struct {
		Replay json.RawMessage `json:"replay"`
	}
	if err := json.Unmarshal(b, &w); err != nil {
		EngineError("?", "replay: %v", err)
	}
	if err := json.Unmarshal(w.Replay, into); err != nil {
		EngineError("?", "replay: %v", err)
	}
	return true
}
