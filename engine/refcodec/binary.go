package refcodec

import (
	"encoding/binary"
	"errors"
	"fmt"
)

// Writer builds OPC UA binary (Part 6 §5.2) encodings. Little endian throughout.
type Writer struct{ B []byte }

func (w *Writer) U8(v byte)    { w.B = append(w.B, v) }
func (w *Writer) U16(v uint16) { w.B = binary.LittleEndian.AppendUint16(w.B, v) }
func (w *Writer) U32(v uint32) { w.B = binary.LittleEndian.AppendUint32(w.B, v) }
func (w *Writer) I32(v int32)  { w.U32(uint32(v)) }
func (w *Writer) I64(v int64)  { w.B = binary.LittleEndian.AppendUint64(w.B, uint64(v)) }
func (w *Writer) Raw(b []byte) { w.B = append(w.B, b...) }

// String writes a UA String; the empty string is written as null (length -1),
// which every decoder must treat like an empty string.
func (w *Writer) String(s string) {
	if s == "" {
		w.I32(-1)
		return
	}
	w.I32(int32(len(s)))
	w.B = append(w.B, s...)
}

// ByteString writes a UA ByteString; nil is null (length -1), empty non-nil is length 0.
func (w *Writer) ByteString(b []byte) {
	if b == nil {
		w.I32(-1)
		return
	}
	w.I32(int32(len(b)))
	w.B = append(w.B, b...)
}

// StringArray writes an array of String; nil is a null array (-1).
func (w *Writer) StringArray(a []string) {
	if a == nil {
		w.I32(-1)
		return
	}
	w.I32(int32(len(a)))
	for _, s := range a {
		w.String(s)
	}
}

// NodeID is a numeric NodeId (the only kind the secure conversation layer needs).
type NodeID struct {
	NS uint16
	ID uint32
}

// NodeID writes the most compact numeric encoding (two-byte, four-byte, numeric).
func (w *Writer) NodeID(n NodeID) {
	switch {
	case n.NS == 0 && n.ID <= 0xff:
		w.U8(0x00)
		w.U8(byte(n.ID))
	case n.NS <= 0xff && n.ID <= 0xffff:
		w.U8(0x01)
		w.U8(byte(n.NS))
		w.U16(uint16(n.ID))
	default:
		w.U8(0x02)
		w.U16(n.NS)
		w.U32(n.ID)
	}
}

// FourByteNodeID writes the four-byte form unconditionally (what stacks use for type ids).
func (w *Writer) FourByteNodeID(ns byte, id uint16) {
	w.U8(0x01)
	w.U8(ns)
	w.U16(id)
}

// NullExtensionObject writes an ExtensionObject without body (TypeId i=0, encoding 0).
func (w *Writer) NullExtensionObject() {
	w.U8(0x00)
	w.U8(0x00)
	w.U8(0x00)
}

// Reader decodes OPC UA binary. The first error sticks; all reads after it return zero values.
type Reader struct {
	B   []byte
	Pos int
	Err error
}

var ErrShort = errors.New("refcodec: unexpected end of data")

func (r *Reader) need(n int) bool {
	if r.Err != nil {
		return false
	}
	if n < 0 || len(r.B)-r.Pos < n {
		r.Err = ErrShort
		return false
	}
	return true
}

func (r *Reader) U8() byte {
	if !r.need(1) {
		return 0
	}
	v := r.B[r.Pos]
	r.Pos++
	return v
}
func (r *Reader) U16() uint16 {
	if !r.need(2) {
		return 0
	}
	v := binary.LittleEndian.Uint16(r.B[r.Pos:])
	r.Pos += 2
	return v
}
func (r *Reader) U32() uint32 {
	if !r.need(4) {
		return 0
	}
	v := binary.LittleEndian.Uint32(r.B[r.Pos:])
	r.Pos += 4
	return v
}
func (r *Reader) I32() int32 { return int32(r.U32()) }
func (r *Reader) I64() int64 {
	if !r.need(8) {
		return 0
	}
	v := binary.LittleEndian.Uint64(r.B[r.Pos:])
	r.Pos += 8
	return int64(v)
}

// N returns the next n bytes (a sub-slice of the input).
func (r *Reader) N(n int) []byte {
	if !r.need(n) {
		return nil
	}
	v := r.B[r.Pos : r.Pos+n]
	r.Pos += n
	return v
}

// Rest returns everything not yet consumed.
func (r *Reader) Rest() []byte {
	if r.Err != nil {
		return nil
	}
	v := r.B[r.Pos:]
	r.Pos = len(r.B)
	return v
}

func (r *Reader) Remaining() int { return len(r.B) - r.Pos }

// ByteString reads a UA ByteString. null (-1) yields nil, length 0 yields an empty non-nil slice.
func (r *Reader) ByteString() []byte {
	n := r.I32()
	if r.Err != nil {
		return nil
	}
	if n == -1 {
		return nil
	}
	if n < -1 {
		r.Err = fmt.Errorf("refcodec: negative length %d", n)
		return nil
	}
	b := r.N(int(n))
	if b == nil && r.Err == nil {
		return []byte{}
	}
	return b
}

// Str reads a UA String (null and empty both yield ""). Not named String so that a Reader is no fmt.Stringer.
func (r *Reader) Str() string { return string(r.ByteString()) }

func (r *Reader) StringArray() []string {
	n := r.I32()
	if r.Err != nil || n == -1 {
		return nil
	}
	if n < -1 || int(n) > r.Remaining()/4 {
		r.Err = fmt.Errorf("refcodec: bad array length %d", n)
		return nil
	}
	out := make([]string, 0, n)
	for i := int32(0); i < n; i++ {
		out = append(out, r.Str())
	}
	return out
}

// NodeID reads a numeric NodeId or ExpandedNodeId (namespace URI / server index are
// consumed and dropped). String, Guid and Opaque identifiers are not needed by the
// secure conversation layer and are reported as errors.
func (r *Reader) NodeID() NodeID {
	enc := r.U8()
	var n NodeID
	switch enc & 0x3f {
	case 0x00:
		n.ID = uint32(r.U8())
	case 0x01:
		n.NS = uint16(r.U8())
		n.ID = uint32(r.U16())
	case 0x02:
		n.NS = r.U16()
		n.ID = r.U32()
	default:
		if r.Err == nil {
			r.Err = fmt.Errorf("refcodec: unsupported NodeId encoding 0x%02x", enc)
		}
		return n
	}
	if enc&0x80 != 0 {
		r.Str()
	}
	if enc&0x40 != 0 {
		r.U32()
	}
	return n
}

// ExtensionObject reads an ExtensionObject and returns its type id and raw body (nil if none).
func (r *Reader) ExtensionObject() (NodeID, []byte) {
	id := r.NodeID()
	switch enc := r.U8(); enc {
	case 0:
		return id, nil
	case 1, 2:
		return id, r.ByteString()
	default:
		if r.Err == nil {
			r.Err = fmt.Errorf("refcodec: bad ExtensionObject encoding %d", enc)
		}
		return id, nil
	}
}

// DiagnosticInfo consumes a DiagnosticInfo structure (Part 6 §5.2.2.12) and returns its encoding mask.
func (r *Reader) DiagnosticInfo() byte { return r.diag(0) }

func (r *Reader) diag(depth int) byte {
	if depth > 32 {
		if r.Err == nil {
			r.Err = errors.New("refcodec: DiagnosticInfo nested too deeply")
		}
		return 0
	}
	m := r.U8()
	if m&0x01 != 0 {
		r.I32() // SymbolicId
	}
	if m&0x02 != 0 {
		r.I32() // NamespaceUri
	}
	if m&0x08 != 0 {
		r.I32() // Locale
	}
	if m&0x04 != 0 {
		r.I32() // LocalizedText
	}
	if m&0x10 != 0 {
		r.Str() // AdditionalInfo
	}
	if m&0x20 != 0 {
		r.U32() // InnerStatusCode
	}
	if m&0x40 != 0 {
		r.diag(depth + 1)
	}
	return m
}
