package refcodec

import (
	"crypto"
	"crypto/aes"
	"crypto/cipher"
	"crypto/hmac"
	"crypto/rand"
	"crypto/rsa"
	_ "crypto/sha1"
	_ "crypto/sha256"
	"crypto/subtle"
	"errors"
	"fmt"
	"io"
)

// Mode is the MessageSecurityMode (Part 4 §7.15) with its wire values.
type Mode uint32

const (
	ModeInvalid        Mode = 0
	ModeNone           Mode = 1
	ModeSign           Mode = 2
	ModeSignAndEncrypt Mode = 3
)

func (m Mode) String() string {
	switch m {
	case ModeNone:
		return "None"
	case ModeSign:
		return "Sign"
	case ModeSignAndEncrypt:
		return "SignAndEncrypt"
	}
	return fmt.Sprintf("Mode(%d)", uint32(m))
}

// AsymEnc / AsymSig name the asymmetric algorithms of a policy (Part 7 profiles).
type AsymEnc int
type AsymSig int

const (
	EncNone       AsymEnc = iota
	EncPKCS1v15           // http://www.w3.org/2001/04/xmlenc#rsa-1_5
	EncOAEPSHA1           // http://www.w3.org/2001/04/xmlenc#rsa-oaep
	EncOAEPSHA256         // http://opcfoundation.org/UA/security/rsa-oaep-sha2-256
)

const (
	SigNone           AsymSig = iota
	SigPKCS1v15SHA1           // http://www.w3.org/2000/09/xmldsig#rsa-sha1
	SigPKCS1v15SHA256         // http://www.w3.org/2001/04/xmldsig-more#rsa-sha256
	SigPSSSHA256              // http://opcfoundation.org/UA/security/rsa-pss-sha2-256
)

const uriPrefix = "http://opcfoundation.org/UA/SecurityPolicy#"

// Policy is one SecurityPolicy as defined by the Part 7 profiles.
type Policy struct {
	Name string
	URI  string

	// symmetric suite
	SymHash   crypto.Hash // HMAC and P_SHA hash (SHA-1 or SHA-256); 0 for None
	SigKeyLen int         // DerivedSignatureKeyLength in bytes
	EncKeyLen int         // AES key length in bytes
	IVLen     int         // AES block size
	SymSigLen int         // HMAC output length

	// asymmetric suite
	AsymEnc    AsymEnc
	AsymSig    AsymSig
	MinKeyBits int
	MaxKeyBits int
	NonceLen   int // SecureChannelNonceLength
}

var (
	PolicyNone = &Policy{Name: "None", URI: uriPrefix + "None"}

	Basic128Rsa15 = &Policy{Name: "Basic128Rsa15", URI: uriPrefix + "Basic128Rsa15",
		SymHash: crypto.SHA1, SigKeyLen: 16, EncKeyLen: 16, IVLen: 16, SymSigLen: 20,
		AsymEnc: EncPKCS1v15, AsymSig: SigPKCS1v15SHA1, MinKeyBits: 1024, MaxKeyBits: 2048, NonceLen: 16}

	Basic256 = &Policy{Name: "Basic256", URI: uriPrefix + "Basic256",
		SymHash: crypto.SHA1, SigKeyLen: 24, EncKeyLen: 32, IVLen: 16, SymSigLen: 20,
		AsymEnc: EncOAEPSHA1, AsymSig: SigPKCS1v15SHA1, MinKeyBits: 1024, MaxKeyBits: 2048, NonceLen: 32}

	Basic256Sha256 = &Policy{Name: "Basic256Sha256", URI: uriPrefix + "Basic256Sha256",
		SymHash: crypto.SHA256, SigKeyLen: 32, EncKeyLen: 32, IVLen: 16, SymSigLen: 32,
		AsymEnc: EncOAEPSHA1, AsymSig: SigPKCS1v15SHA256, MinKeyBits: 2048, MaxKeyBits: 4096, NonceLen: 32}

	Aes128Sha256RsaOaep = &Policy{Name: "Aes128_Sha256_RsaOaep", URI: uriPrefix + "Aes128_Sha256_RsaOaep",
		SymHash: crypto.SHA256, SigKeyLen: 32, EncKeyLen: 16, IVLen: 16, SymSigLen: 32,
		AsymEnc: EncOAEPSHA1, AsymSig: SigPKCS1v15SHA256, MinKeyBits: 2048, MaxKeyBits: 4096, NonceLen: 32}

	Aes256Sha256RsaPss = &Policy{Name: "Aes256_Sha256_RsaPss", URI: uriPrefix + "Aes256_Sha256_RsaPss",
		SymHash: crypto.SHA256, SigKeyLen: 32, EncKeyLen: 32, IVLen: 16, SymSigLen: 32,
		AsymEnc: EncOAEPSHA256, AsymSig: SigPSSSHA256, MinKeyBits: 2048, MaxKeyBits: 4096, NonceLen: 32}
)

// SecuredPolicies are the five policies with cryptography; Policies adds None in front.
var SecuredPolicies = []*Policy{Basic128Rsa15, Basic256, Basic256Sha256, Aes128Sha256RsaOaep, Aes256Sha256RsaPss}
var Policies = append([]*Policy{PolicyNone}, SecuredPolicies...)

func PolicyByURI(uri string) *Policy {
	for _, p := range Policies {
		if p.URI == uri {
			return p
		}
	}
	return nil
}

func PolicyByName(name string) *Policy {
	for _, p := range Policies {
		if p.Name == name {
			return p
		}
	}
	return nil
}

func (p *Policy) IsNone() bool { return p.SymHash == 0 }

// KeySizeAllowed reports whether an RSA modulus of the given bit length is within
// [MinAsymmetricKeyLength, MaxAsymmetricKeyLength] of the policy.
func (p *Policy) KeySizeAllowed(bits int) bool {
	if p.IsNone() {
		return true
	}
	return bits >= p.MinKeyBits && bits <= p.MaxKeyBits
}

// Rand is the randomness source for RSA padding and PSS salts.
var Rand io.Reader = rand.Reader

// ---------------------------------------------------------------------------------------------
// Key derivation (Part 6 §6.7.5): P_SHA1 / P_SHA256 as defined for TLS (RFC 5246 §5):
//
//	P_hash(secret, seed) = HMAC(secret, A(1)+seed) + HMAC(secret, A(2)+seed) + ...
//	A(0) = seed, A(i) = HMAC(secret, A(i-1))

// PHash returns the first n bytes of P_hash(secret, seed).
func PHash(h crypto.Hash, secret, seed []byte, n int) []byte {
	mac := func(parts ...[]byte) []byte {
		m := hmac.New(h.New, secret)
		for _, p := range parts {
			m.Write(p)
		}
		return m.Sum(nil)
	}
	var out []byte
	a := mac(seed)
	for len(out) < n {
		out = append(out, mac(a, seed)...)
		a = mac(a)
	}
	return out[:n]
}

// DirKeys are the keys securing ONE direction: the sender signs and encrypts
// with them, the receiver verifies and decrypts with the same values.
type DirKeys struct {
	Sign []byte
	Enc  []byte
	IV   []byte
}

// DeriveKeys derives both key sets from the nonces exchanged in OpenSecureChannel:
//
//	client keys (used by the client to secure what it sends) = P_hash(secret = ServerNonce, seed = ClientNonce)
//	server keys (used by the server to secure what it sends) = P_hash(secret = ClientNonce, seed = ServerNonce)
//
// each split into SigningKey | EncryptingKey | InitializationVector.
func (p *Policy) DeriveKeys(clientNonce, serverNonce []byte) (client, server DirKeys) {
	if p.IsNone() {
		return
	}
	split := func(b []byte) DirKeys {
		return DirKeys{Sign: b[:p.SigKeyLen], Enc: b[p.SigKeyLen : p.SigKeyLen+p.EncKeyLen], IV: b[p.SigKeyLen+p.EncKeyLen:]}
	}
	n := p.SigKeyLen + p.EncKeyLen + p.IVLen
	client = split(PHash(p.SymHash, serverNonce, clientNonce, n))
	server = split(PHash(p.SymHash, clientNonce, serverNonce, n))
	return
}

// ---------------------------------------------------------------------------------------------
// Symmetric algorithms: HMAC-SHA1 / HMAC-SHA256 and AES-128/256-CBC without padding.

func (p *Policy) SymSign(k DirKeys, data []byte) []byte {
	if p.IsNone() {
		return nil
	}
	m := hmac.New(p.SymHash.New, k.Sign)
	m.Write(data)
	return m.Sum(nil)
}

func (p *Policy) SymVerify(k DirKeys, data, sig []byte) bool {
	if p.IsNone() {
		return len(sig) == 0
	}
	return hmac.Equal(p.SymSign(k, data), sig)
}

func (p *Policy) SymEncrypt(k DirKeys, plain []byte) ([]byte, error) {
	if p.IsNone() {
		return append([]byte(nil), plain...), nil
	}
	if len(k.Enc) != p.EncKeyLen || len(k.IV) != p.IVLen {
		return nil, errors.New("refcodec: wrong key or IV length")
	}
	if len(plain)%aes.BlockSize != 0 {
		return nil, fmt.Errorf("refcodec: plaintext length %d is not a multiple of the AES block size", len(plain))
	}
	c, err := aes.NewCipher(k.Enc)
	if err != nil {
		return nil, err
	}
	out := make([]byte, len(plain))
	cipher.NewCBCEncrypter(c, k.IV).CryptBlocks(out, plain)
	return out, nil
}

func (p *Policy) SymDecrypt(k DirKeys, ct []byte) ([]byte, error) {
	if p.IsNone() {
		return append([]byte(nil), ct...), nil
	}
	if len(k.Enc) != p.EncKeyLen || len(k.IV) != p.IVLen {
		return nil, errors.New("refcodec: wrong key or IV length")
	}
	if len(ct)%aes.BlockSize != 0 {
		return nil, fmt.Errorf("refcodec: ciphertext length %d is not a multiple of the AES block size", len(ct))
	}
	c, err := aes.NewCipher(k.Enc)
	if err != nil {
		return nil, err
	}
	out := make([]byte, len(ct))
	cipher.NewCBCDecrypter(c, k.IV).CryptBlocks(out, ct)
	return out, nil
}

// ---------------------------------------------------------------------------------------------
// Asymmetric algorithms. RSA encryption is applied block-wise (Part 6 §6.7.2.5): the
// plaintext is cut into blocks of PlainTextBlockSize, each encrypted to one block of
// CipherTextBlockSize = modulus length.

// AsymOverhead is the per-block padding overhead of the encryption scheme:
// 11 for PKCS#1 v1.5, 2*hLen+2 for OAEP (42 with SHA-1, 66 with SHA-256).
func (p *Policy) AsymOverhead() int {
	switch p.AsymEnc {
	case EncPKCS1v15:
		return 11
	case EncOAEPSHA1:
		return 2*20 + 2
	case EncOAEPSHA256:
		return 2*32 + 2
	}
	return 0
}

// AsymCipherBlock is the modulus length in bytes (1 for None).
func (p *Policy) AsymCipherBlock(pub *rsa.PublicKey) int {
	if p.IsNone() || pub == nil {
		return 1
	}
	return pub.Size()
}

// AsymPlainBlock is the largest plaintext one RSA block can carry (1 for None).
func (p *Policy) AsymPlainBlock(pub *rsa.PublicKey) int {
	if p.IsNone() || pub == nil {
		return 1
	}
	return pub.Size() - p.AsymOverhead()
}

// AsymSigLen is the signature length in bytes: the signer's modulus length.
func (p *Policy) AsymSigLen(pub *rsa.PublicKey) int {
	if p.IsNone() || pub == nil {
		return 0
	}
	return pub.Size()
}

func (p *Policy) encryptBlock(pub *rsa.PublicKey, b []byte) ([]byte, error) {
	switch p.AsymEnc {
	case EncPKCS1v15:
		return rsa.EncryptPKCS1v15(Rand, pub, b)
	case EncOAEPSHA1:
		return rsa.EncryptOAEP(crypto.SHA1.New(), Rand, pub, b, nil)
	case EncOAEPSHA256:
		return rsa.EncryptOAEP(crypto.SHA256.New(), Rand, pub, b, nil)
	}
	return nil, errors.New("refcodec: policy has no asymmetric encryption")
}

func (p *Policy) decryptBlock(priv *rsa.PrivateKey, b []byte) ([]byte, error) {
	switch p.AsymEnc {
	case EncPKCS1v15:
		return rsa.DecryptPKCS1v15(nil, priv, b)
	case EncOAEPSHA1:
		return rsa.DecryptOAEP(crypto.SHA1.New(), nil, priv, b, nil)
	case EncOAEPSHA256:
		return rsa.DecryptOAEP(crypto.SHA256.New(), nil, priv, b, nil)
	}
	return nil, errors.New("refcodec: policy has no asymmetric encryption")
}

// AsymEncrypt encrypts plain block-wise with the receiver's public key. Every
// block but possibly the last carries exactly AsymPlainBlock bytes.
// Empty input yields empty output.
func (p *Policy) AsymEncrypt(pub *rsa.PublicKey, plain []byte) ([]byte, error) {
	return p.AsymEncryptBlocks(pub, plain, p.AsymPlainBlock(pub))
}

// AsymEncryptBlocks is AsymEncrypt with an explicit plaintext block size
// (<= AsymPlainBlock), for peers that fill RSA blocks only partially.
func (p *Policy) AsymEncryptBlocks(pub *rsa.PublicKey, plain []byte, plainBlock int) ([]byte, error) {
	if p.IsNone() {
		return append([]byte(nil), plain...), nil
	}
	if plainBlock <= 0 || plainBlock > p.AsymPlainBlock(pub) {
		return nil, fmt.Errorf("refcodec: plaintext block size %d not in 1..%d", plainBlock, p.AsymPlainBlock(pub))
	}
	var out []byte
	for len(plain) > 0 {
		n := plainBlock
		if n > len(plain) {
			n = len(plain)
		}
		c, err := p.encryptBlock(pub, plain[:n])
		if err != nil {
			return nil, err
		}
		out = append(out, c...)
		plain = plain[n:]
	}
	return out, nil
}

// AsymDecrypt decrypts a whole number of cipher blocks and concatenates the
// plaintexts; blocks may carry fewer bytes than AsymPlainBlock.
func (p *Policy) AsymDecrypt(priv *rsa.PrivateKey, ct []byte) ([]byte, error) {
	if p.IsNone() {
		return append([]byte(nil), ct...), nil
	}
	k := priv.PublicKey.Size()
	if len(ct)%k != 0 {
		return nil, fmt.Errorf("refcodec: ciphertext length %d is not a multiple of the RSA block size %d", len(ct), k)
	}
	var out []byte
	for len(ct) > 0 {
		b, err := p.decryptBlock(priv, ct[:k])
		if err != nil {
			return nil, err
		}
		out = append(out, b...)
		ct = ct[k:]
	}
	return out, nil
}

func (p *Policy) asymDigest(data []byte) (crypto.Hash, []byte) {
	h := crypto.SHA256
	if p.AsymSig == SigPKCS1v15SHA1 {
		h = crypto.SHA1
	}
	d := h.New()
	d.Write(data)
	return h, d.Sum(nil)
}

// AsymSign signs data with the sender's private key.
func (p *Policy) AsymSign(priv *rsa.PrivateKey, data []byte) ([]byte, error) {
	h, d := p.asymDigest(data)
	switch p.AsymSig {
	case SigPKCS1v15SHA1, SigPKCS1v15SHA256:
		return rsa.SignPKCS1v15(nil, priv, h, d)
	case SigPSSSHA256:
		// Part 7: RSASSA-PSS, SHA2-256 also for MGF1, salt length 32 bytes
		return rsa.SignPSS(Rand, priv, h, d, &rsa.PSSOptions{SaltLength: rsa.PSSSaltLengthEqualsHash, Hash: h})
	}
	return nil, errors.New("refcodec: policy has no asymmetric signature")
}

// AsymVerify verifies a signature made with AsymSign by the holder of pub.
func (p *Policy) AsymVerify(pub *rsa.PublicKey, data, sig []byte) error {
	h, d := p.asymDigest(data)
	switch p.AsymSig {
	case SigPKCS1v15SHA1, SigPKCS1v15SHA256:
		return rsa.VerifyPKCS1v15(pub, h, d, sig)
	case SigPSSSHA256:
		return rsa.VerifyPSS(pub, h, d, sig, &rsa.PSSOptions{SaltLength: rsa.PSSSaltLengthEqualsHash, Hash: h})
	}
	return errors.New("refcodec: policy has no asymmetric signature")
}

func constEq(a, b []byte) bool { return subtle.ConstantTimeCompare(a, b) == 1 }
