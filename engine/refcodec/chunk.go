package refcodec

import (
	"crypto/rsa"
	"crypto/sha1"
	"crypto/x509"
	"encoding/binary"
	"fmt"
)

// Secure conversation MessageChunk (Part 6 §6.7.2):
//
//	MessageHeader      MessageType[3] IsFinal[1] MessageSize:u32 SecureChannelId:u32          (12 bytes)
//	SecurityHeader     asymmetric (OPN): SecurityPolicyUri:String SenderCertificate:ByteString
//	                                     ReceiverCertificateThumbprint:ByteString
//	                   symmetric (MSG, CLO): TokenId:u32
//	---- from here on encrypted (if the chunk is encrypted) ----------------------------------
//	SequenceHeader     SequenceNumber:u32 RequestId:u32
//	Body
//	Footer             PaddingSize:u8 Padding[PaddingSize] ExtraPaddingSize:u8   (only if encrypted;
//	                   ExtraPaddingSize only if the encrypting key is longer than 2048 bits)
//	                   Signature                                                  (only if signed)
//
// The signature covers everything before it (all headers with the FINAL MessageSize, body,
// padding). Padding makes SequenceHeader..Signature a whole number of plaintext blocks; every
// Padding byte and the PaddingSize byte hold the low byte of the padding count, ExtraPaddingSize
// holds the high byte.
//
// OPN chunks are always signed with the sender's private key and encrypted with the
// receiver's public key unless the policy is None; MSG/CLO chunks follow the channel's
// MessageSecurityMode with the keys derived from the nonces.

// Chunk is the decoded (plaintext) content of one MessageChunk.
type Chunk struct {
	Type      string // "MSG", "CLO", "OPN"
	IsFinal   byte   // 'F', 'C', 'A'
	ChannelID uint32

	TokenID uint32 // symmetric security header

	PolicyURI          string // asymmetric security header
	SenderCert         []byte
	ReceiverThumbprint []byte

	SequenceNumber uint32
	RequestID      uint32
	Body           []byte
}

// Layout records what the decoder saw (or the encoder produced) below the plaintext level.
type Layout struct {
	MessageSize    int  `json:"message_size"`
	HeaderLen      int  `json:"header_len"` // message header + security header
	Signed         bool `json:"signed"`
	Encrypted      bool `json:"encrypted"`
	PlainLen       int  `json:"plain_len"`    // SequenceHeader..Signature after decryption
	PaddingSize    int  `json:"padding_size"` // number of Padding bytes (not counting the size fields)
	ExtraPadding   bool `json:"extra_padding"`
	SignatureLen   int  `json:"signature_len"`
	CipherBlock    int  `json:"cipher_block"`
	PlainBlockMax  int  `json:"plain_block_max"`  // largest plaintext the scheme allows per block
	PlainBlockUsed int  `json:"plain_block_used"` // PlainLen / number of cipher blocks (what the sender filled per block)
	BodyLen        int  `json:"body_len"`
}

// LayoutError is a decode failure; Kind is a stable class name usable in finding signatures.
type LayoutError struct {
	Kind   string // body, chunk-too-large, header, size-field, policy, certificate, thumbprint, cipher-length, decrypt, short, signature, padding, channel-id, token-id, sequence-number, message-type, ...
	Detail string
}

func (e *LayoutError) Error() string { return "refcodec: " + e.Kind + ": " + e.Detail }

func lerr(kind, format string, a ...any) error {
	return &LayoutError{Kind: kind, Detail: fmt.Sprintf(format, a...)}
}

// ErrKind returns the LayoutError kind of err, or "other".
func ErrKind(err error) string {
	if le, ok := err.(*LayoutError); ok {
		return le.Kind
	}
	if se, ok := err.(*StepError); ok {
		return ErrKind(se.Err)
	}
	return "other"
}

// PadStyle selects how a sender pads when the data is already block aligned.
type PadStyle int

const (
	// PadMinimal adds no Padding bytes when PaddingSize (+ExtraPaddingSize) alone completes the block.
	PadMinimal PadStyle = iota
	// PadSpecFormula follows the formula printed in §6.7.2.5 literally,
	// PaddingSize = PlainTextBlockSize - ((BytesToWrite + SignatureSize + 1) % PlainTextBlockSize),
	// which yields a full block of padding in the aligned case. Both are valid on the wire.
	PadSpecFormula
)

const (
	msgHeaderLen = 12
	seqHeaderLen = 8
	symHeaderLen = msgHeaderLen + 4
)

func padCount(unpadded, block int, style PadStyle) int {
	// unpadded = SequenceHeader + Body + size field(s) + Signature
	n := block - unpadded%block
	if n == block && style == PadMinimal {
		n = 0
	}
	return n
}

func appendPadding(plain []byte, n int, extra bool) []byte {
	plain = append(plain, byte(n)) // PaddingSize
	for i := 0; i < n; i++ {
		plain = append(plain, byte(n)) // Padding
	}
	if extra {
		plain = append(plain, byte(n>>8)) // ExtraPaddingSize
	}
	return plain
}

// stripPadding validates and removes the footer's padding fields from signed = SequenceHeader..ExtraPaddingSize.
func stripPadding(signed []byte, extra bool) (body []byte, n int, err error) {
	fields := 1
	if extra {
		fields = 2
	}
	if len(signed) < seqHeaderLen+fields {
		return nil, 0, lerr("padding", "%d bytes left for sequence header and padding fields", len(signed))
	}
	end := len(signed)
	if extra {
		n = int(signed[end-1])<<8 | int(signed[end-2])
		end--
	} else {
		n = int(signed[end-1])
	}
	// signed[:end] now ends with PaddingSize Padding[n]; all n+1 bytes hold the low byte of n
	if end-(n+1) < seqHeaderLen {
		return nil, n, lerr("padding", "padding count %d exceeds the %d bytes available", n, end-seqHeaderLen-1)
	}
	for i := end - (n + 1); i < end; i++ {
		if signed[i] != byte(n) {
			return nil, n, lerr("padding", "padding byte at offset %d from the end is 0x%02x, want 0x%02x (count %d)", len(signed)-i, signed[i], byte(n), n)
		}
	}
	return signed[:end-(n+1)], n, nil
}

func parseMsgHeader(raw []byte) (typ string, fin byte, channel uint32, err error) {
	if len(raw) < msgHeaderLen {
		return "", 0, 0, lerr("short", "%d bytes, message header needs 12", len(raw))
	}
	typ, fin = string(raw[:3]), raw[3]
	size := binary.LittleEndian.Uint32(raw[4:])
	channel = binary.LittleEndian.Uint32(raw[8:])
	if int(size) != len(raw) {
		return typ, fin, channel, lerr("size-field", "MessageSize %d but the chunk has %d bytes", size, len(raw))
	}
	if fin != Final && fin != Intermediate && fin != Abort {
		return typ, fin, channel, lerr("header", "IsFinal %q", fin)
	}
	return
}

// ---------------------------------------------------------------------------------------------
// Symmetric chunks (MSG, CLO)

// SymSecurity is the protection of one direction of an open channel.
type SymSecurity struct {
	Policy *Policy
	Mode   Mode
	Keys   DirKeys // keys of the SENDER of the chunk
}

func (s SymSecurity) signed() bool {
	return !s.Policy.IsNone() && (s.Mode == ModeSign || s.Mode == ModeSignAndEncrypt)
}
func (s SymSecurity) encrypted() bool { return !s.Policy.IsNone() && s.Mode == ModeSignAndEncrypt }

// SymChunkLen is the on-wire length of a symmetric chunk with the given body length.
func SymChunkLen(s SymSecurity, bodyLen int, style PadStyle) int {
	n := seqHeaderLen + bodyLen
	if s.signed() {
		n += s.Policy.SymSigLen
	}
	if s.encrypted() {
		n++
		n += padCount(n, s.Policy.IVLen, style)
	}
	return symHeaderLen + n
}

// SymMaxBody is the largest body for which SymChunkLen <= chunkSize (negative if even an empty body does not fit).
func SymMaxBody(s SymSecurity, chunkSize int, style PadStyle) int {
	// arithmetic first guess per §6.7.2.5, then exact adjustment
	avail := chunkSize - symHeaderLen
	if s.encrypted() {
		avail -= avail % s.Policy.IVLen
	}
	b := avail - seqHeaderLen
	if s.signed() {
		b -= s.Policy.SymSigLen
	}
	for b >= 0 && SymChunkLen(s, b, style) > chunkSize {
		b--
	}
	for b >= 0 && SymChunkLen(s, b+1, style) <= chunkSize {
		b++
	}
	return b
}

// EncodeSymChunk builds the wire form of a MSG/CLO chunk.
func EncodeSymChunk(s SymSecurity, c *Chunk, style PadStyle) ([]byte, *Layout, error) {
	if c.Type != TypeMessage && c.Type != TypeClose {
		return nil, nil, lerr("message-type", "%q is not a symmetric chunk type", c.Type)
	}
	lay := &Layout{HeaderLen: symHeaderLen, Signed: s.signed(), Encrypted: s.encrypted(), BodyLen: len(c.Body), CipherBlock: 1, PlainBlockMax: 1, PlainBlockUsed: 1}
	b := make([]byte, 0, SymChunkLen(s, len(c.Body), style))
	b = append(b, c.Type...)
	b = append(b, c.IsFinal)
	b = binary.LittleEndian.AppendUint32(b, 0) // MessageSize, fixed below
	b = binary.LittleEndian.AppendUint32(b, c.ChannelID)
	b = binary.LittleEndian.AppendUint32(b, c.TokenID)
	b = binary.LittleEndian.AppendUint32(b, c.SequenceNumber)
	b = binary.LittleEndian.AppendUint32(b, c.RequestID)
	b = append(b, c.Body...)
	if s.encrypted() {
		lay.CipherBlock, lay.PlainBlockMax, lay.PlainBlockUsed = s.Policy.IVLen, s.Policy.IVLen, s.Policy.IVLen
		n := padCount(len(b)-symHeaderLen+1+s.Policy.SymSigLen, s.Policy.IVLen, style)
		b = appendPadding(b, n, false)
		lay.PaddingSize = n
	}
	if s.signed() {
		lay.SignatureLen = s.Policy.SymSigLen
	}
	size := len(b) + lay.SignatureLen // AES-CBC preserves the length
	binary.LittleEndian.PutUint32(b[4:], uint32(size))
	if s.signed() {
		b = append(b, s.Policy.SymSign(s.Keys, b)...)
	}
	lay.MessageSize, lay.PlainLen = size, len(b)-symHeaderLen
	if s.encrypted() {
		ct, err := s.Policy.SymEncrypt(s.Keys, b[symHeaderLen:])
		if err != nil {
			return nil, nil, err
		}
		b = append(b[:symHeaderLen], ct...)
	}
	return b, lay, nil
}

// DecodeSymChunk verifies, decrypts and parses a MSG/CLO chunk protected with s.
func DecodeSymChunk(s SymSecurity, raw []byte) (*Chunk, *Layout, error) {
	typ, fin, channel, err := parseMsgHeader(raw)
	if err != nil {
		return nil, nil, err
	}
	if typ != TypeMessage && typ != TypeClose {
		return nil, nil, lerr("message-type", "%q is not a symmetric chunk type", typ)
	}
	if len(raw) < symHeaderLen+seqHeaderLen {
		return nil, nil, lerr("short", "%d bytes, symmetric chunk needs at least 24", len(raw))
	}
	c := &Chunk{Type: typ, IsFinal: fin, ChannelID: channel, TokenID: binary.LittleEndian.Uint32(raw[12:])}
	lay := &Layout{MessageSize: len(raw), HeaderLen: symHeaderLen, Signed: s.signed(), Encrypted: s.encrypted(), CipherBlock: 1, PlainBlockMax: 1, PlainBlockUsed: 1}
	plain := raw[symHeaderLen:]
	if s.encrypted() {
		lay.CipherBlock, lay.PlainBlockMax, lay.PlainBlockUsed = s.Policy.IVLen, s.Policy.IVLen, s.Policy.IVLen
		if len(plain)%s.Policy.IVLen != 0 {
			return nil, lay, lerr("cipher-length", "encrypted region of %d bytes is not a multiple of the AES block size", len(plain))
		}
		if plain, err = s.Policy.SymDecrypt(s.Keys, plain); err != nil {
			return nil, lay, lerr("decrypt", "%v", err)
		}
	}
	lay.PlainLen = len(plain)
	signed := plain
	if s.signed() {
		lay.SignatureLen = s.Policy.SymSigLen
		if len(plain) < seqHeaderLen+lay.SignatureLen {
			return nil, lay, lerr("short", "%d plaintext bytes cannot hold sequence header and signature", len(plain))
		}
		signed = plain[:len(plain)-lay.SignatureLen]
		data := append(append([]byte(nil), raw[:symHeaderLen]...), signed...)
		if !s.Policy.SymVerify(s.Keys, data, plain[len(signed):]) {
			return nil, lay, lerr("signature", "HMAC over header+sequence header+body+padding does not verify")
		}
	}
	body := signed
	if s.encrypted() {
		if body, lay.PaddingSize, err = stripPadding(signed, false); err != nil {
			return nil, lay, err
		}
	}
	c.SequenceNumber = binary.LittleEndian.Uint32(body)
	c.RequestID = binary.LittleEndian.Uint32(body[4:])
	c.Body = body[seqHeaderLen:]
	lay.BodyLen = len(c.Body)
	return c, lay, nil
}

// ---------------------------------------------------------------------------------------------
// Asymmetric chunks (OPN)

// Thumbprint is the CertificateDigest: SHA-1 of the DER certificate.
func Thumbprint(certDER []byte) []byte { s := sha1.Sum(certDER); return s[:] }

// CertPublicKey returns the RSA key of the first certificate in der (a chain may follow it).
func CertPublicKey(der []byte) (*rsa.PublicKey, error) {
	certs, err := x509.ParseCertificates(der)
	if err != nil {
		return nil, err
	}
	if len(certs) == 0 {
		return nil, fmt.Errorf("no certificate")
	}
	pub, ok := certs[0].PublicKey.(*rsa.PublicKey)
	if !ok {
		return nil, fmt.Errorf("certificate key is %T, not RSA", certs[0].PublicKey)
	}
	return pub, nil
}

// leafDER returns the DER bytes of the first certificate of a chain.
func leafDER(der []byte) []byte {
	certs, err := x509.ParseCertificates(der)
	if err != nil || len(certs) == 0 {
		return der
	}
	return certs[0].Raw
}

func extraPaddingFor(pub *rsa.PublicKey) bool { return pub != nil && pub.N.BitLen() > 2048 }

// OPNOptions tune EncodeOPNChunk.
type OPNOptions struct {
	Style PadStyle
	// PlainBlock, if non-zero, fills every RSA block with only this many bytes
	// (must be <= Policy.AsymPlainBlock); default is the scheme's maximum.
	PlainBlock int
}

// EncodeOPNChunk builds the wire form of an OPN chunk. c.PolicyURI selects the policy;
// c.SenderCert must be the DER certificate for senderKey; receiverCert the receiver's DER
// certificate (both ignored for policy None). c.ReceiverThumbprint is filled in.
func EncodeOPNChunk(senderKey *rsa.PrivateKey, receiverCert []byte, c *Chunk, o OPNOptions) ([]byte, *Layout, error) {
	p := PolicyByURI(c.PolicyURI)
	if p == nil {
		return nil, nil, lerr("policy", "unknown policy %q", c.PolicyURI)
	}
	if c.Type != TypeOpen {
		return nil, nil, lerr("message-type", "%q is not OPN", c.Type)
	}
	var w Writer
	w.Raw([]byte(TypeOpen))
	w.U8(c.IsFinal)
	w.U32(0)
	w.U32(c.ChannelID)
	w.String(c.PolicyURI)
	var receiverPub *rsa.PublicKey
	if p.IsNone() {
		w.ByteString(nil)
		w.ByteString(nil)
	} else {
		var err error
		if receiverPub, err = CertPublicKey(receiverCert); err != nil {
			return nil, nil, lerr("certificate", "receiver certificate: %v", err)
		}
		c.ReceiverThumbprint = Thumbprint(leafDER(receiverCert))
		w.ByteString(c.SenderCert)
		w.ByteString(c.ReceiverThumbprint)
	}
	hdrLen := len(w.B)
	w.U32(c.SequenceNumber)
	w.U32(c.RequestID)
	w.Raw(c.Body)
	lay := &Layout{HeaderLen: hdrLen, BodyLen: len(c.Body), CipherBlock: 1, PlainBlockMax: 1, PlainBlockUsed: 1}
	if p.IsNone() {
		binary.LittleEndian.PutUint32(w.B[4:], uint32(len(w.B)))
		lay.MessageSize, lay.PlainLen = len(w.B), len(w.B)-hdrLen
		return w.B, lay, nil
	}
	pbs, cbs, sigLen := p.AsymPlainBlock(receiverPub), p.AsymCipherBlock(receiverPub), p.AsymSigLen(&senderKey.PublicKey)
	lay.PlainBlockMax = pbs
	if o.PlainBlock != 0 {
		if o.PlainBlock > pbs || o.PlainBlock < 1 {
			return nil, nil, fmt.Errorf("refcodec: PlainBlock %d not in 1..%d", o.PlainBlock, pbs)
		}
		pbs = o.PlainBlock
	}
	extra := extraPaddingFor(receiverPub)
	fields := 1
	if extra {
		fields = 2
	}
	n := padCount(len(w.B)-hdrLen+fields+sigLen, pbs, o.Style)
	if !extra && n > 255 {
		return nil, nil, fmt.Errorf("refcodec: padding count %d needs ExtraPaddingSize", n)
	}
	w.B = appendPadding(w.B, n, extra)
	plainLen := len(w.B) - hdrLen + sigLen
	blocks := plainLen / pbs
	size := hdrLen + blocks*cbs
	binary.LittleEndian.PutUint32(w.B[4:], uint32(size))
	sig, err := p.AsymSign(senderKey, w.B)
	if err != nil {
		return nil, nil, err
	}
	w.Raw(sig)
	ct, err := p.AsymEncryptBlocks(receiverPub, w.B[hdrLen:], pbs)
	if err != nil {
		return nil, nil, err
	}
	*lay = Layout{MessageSize: size, HeaderLen: hdrLen, Signed: true, Encrypted: true, PlainLen: plainLen, PaddingSize: n, ExtraPadding: extra,
		SignatureLen: sigLen, CipherBlock: cbs, PlainBlockMax: lay.PlainBlockMax, PlainBlockUsed: pbs, BodyLen: len(c.Body)}
	return append(w.B[:hdrLen:hdrLen], ct...), lay, nil
}

// ParseOPNHeader parses the unencrypted part of an OPN chunk and returns the offset of the encrypted region.
func ParseOPNHeader(raw []byte) (*Chunk, int, error) {
	typ, fin, channel, err := parseMsgHeader(raw)
	if err != nil {
		return nil, 0, err
	}
	if typ != TypeOpen {
		return nil, 0, lerr("message-type", "%q is not OPN", typ)
	}
	if fin != Final {
		return nil, 0, lerr("header", "OPN chunk with IsFinal %q (OpenSecureChannel messages are single chunk)", fin)
	}
	r := Reader{B: raw, Pos: msgHeaderLen}
	c := &Chunk{Type: typ, IsFinal: fin, ChannelID: channel}
	c.PolicyURI = r.Str()
	c.SenderCert = r.ByteString()
	c.ReceiverThumbprint = r.ByteString()
	if r.Err != nil {
		return nil, 0, lerr("header", "asymmetric security header: %v", r.Err)
	}
	if len(c.PolicyURI) > 255 {
		return nil, 0, lerr("header", "SecurityPolicyUri of %d bytes (limit 255)", len(c.PolicyURI))
	}
	return c, r.Pos, nil
}

// DecodeOPNChunk verifies, decrypts and parses an OPN chunk addressed to the holder of
// receiverKey / receiverCert (both nil for policy None). The sender's public key is
// taken from the SenderCertificate in the chunk, as a real receiver does.
func DecodeOPNChunk(receiverKey *rsa.PrivateKey, receiverCert []byte, raw []byte) (*Chunk, *Layout, error) {
	c, hdrLen, err := ParseOPNHeader(raw)
	if err != nil {
		return nil, nil, err
	}
	p := PolicyByURI(c.PolicyURI)
	if p == nil {
		return c, nil, lerr("policy", "unknown policy %q", c.PolicyURI)
	}
	lay := &Layout{MessageSize: len(raw), HeaderLen: hdrLen, CipherBlock: 1, PlainBlockMax: 1, PlainBlockUsed: 1}
	if p.IsNone() {
		body := raw[hdrLen:]
		if len(body) < seqHeaderLen {
			return c, lay, lerr("short", "no room for the sequence header")
		}
		lay.PlainLen = len(body)
		c.SequenceNumber = binary.LittleEndian.Uint32(body)
		c.RequestID = binary.LittleEndian.Uint32(body[4:])
		c.Body = body[seqHeaderLen:]
		lay.BodyLen = len(c.Body)
		return c, lay, nil
	}
	if receiverKey == nil {
		return c, lay, lerr("policy", "secured OPN (%s) but no private key to decrypt with", p.Name)
	}
	lay.Signed, lay.Encrypted = true, true
	if len(c.SenderCert) == 0 {
		return c, lay, lerr("certificate", "SenderCertificate is null in a signed chunk")
	}
	senderPub, err := CertPublicKey(c.SenderCert)
	if err != nil {
		return c, lay, lerr("certificate", "SenderCertificate: %v", err)
	}
	if want := Thumbprint(leafDER(receiverCert)); !constEq(want, c.ReceiverThumbprint) {
		return c, lay, lerr("thumbprint", "ReceiverCertificateThumbprint %x, SHA-1 of the receiver certificate is %x", c.ReceiverThumbprint, want)
	}
	cbs := receiverKey.PublicKey.Size()
	lay.CipherBlock, lay.PlainBlockMax = cbs, p.AsymPlainBlock(&receiverKey.PublicKey)
	enc := raw[hdrLen:]
	if len(enc) == 0 || len(enc)%cbs != 0 {
		return c, lay, lerr("cipher-length", "encrypted region of %d bytes is not a positive multiple of the RSA block size %d", len(enc), cbs)
	}
	plain, err := p.AsymDecrypt(receiverKey, enc)
	if err != nil {
		return c, lay, lerr("decrypt", "%v", err)
	}
	lay.PlainLen = len(plain)
	lay.PlainBlockUsed = len(plain) / (len(enc) / cbs)
	lay.SignatureLen = p.AsymSigLen(senderPub)
	lay.ExtraPadding = extraPaddingFor(&receiverKey.PublicKey)
	if len(plain) < seqHeaderLen+lay.SignatureLen {
		return c, lay, lerr("short", "%d plaintext bytes cannot hold sequence header and a %d byte signature", len(plain), lay.SignatureLen)
	}
	signed := plain[:len(plain)-lay.SignatureLen]
	data := append(append([]byte(nil), raw[:hdrLen]...), signed...)
	if err := p.AsymVerify(senderPub, data, plain[len(signed):]); err != nil {
		return c, lay, lerr("signature", "asymmetric signature over header+sequence header+body+padding does not verify: %v", err)
	}
	body, n, err := stripPadding(signed, lay.ExtraPadding)
	lay.PaddingSize = n
	if err != nil {
		return c, lay, err
	}
	c.SequenceNumber = binary.LittleEndian.Uint32(body)
	c.RequestID = binary.LittleEndian.Uint32(body[4:])
	c.Body = body[seqHeaderLen:]
	lay.BodyLen = len(c.Body)
	return c, lay, nil
}
