package refcodec

import (
	"crypto/rsa"
	"fmt"
	"io"
)

// Endpoint is the static configuration of the refcodec side of a connection.
type Endpoint struct {
	Policy *Policy
	Mode   Mode

	Key     *rsa.PrivateKey // local private key (nil for policy None)
	CertDER []byte          // local certificate
	// PeerCertDER is the remote certificate. A client must know it up front; a
	// server learns it from the OPN request (and, if set, requires it to match).
	PeerCertDER []byte

	// Local UACP limits announced in HEL (client) or ACK (server). Zero = 65535 / 65535 / 0 / 0.
	ReceiveBufSize, SendBufSize, MaxMessageSize, MaxChunkCount uint32
	EndpointURL                                                string // HEL only

	Nonce             []byte // local nonce; nil = Policy.NonceLen bytes from Rand
	RequestedLifetime uint32 // client: requested; server: 0 = grant what was requested
	ChannelID         uint32 // server: ids to issue
	TokenID           uint32
	FirstSequence     uint32 // first sequence number to send (0 = 1)
	FirstRequestID    uint32 // client: first request id (0 = 1)
	Timestamp         int64  // DateTime written into headers and CreatedAt (refcodec never reads a clock)
	OPNRequestType    uint32 // client: SecurityTokenRequestType of the first OpenSecureChannel (0 = Issue, 1 = Renew)

	Style PadStyle   // padding style for symmetric chunks
	OPN   OPNOptions // padding style / block fill for the OPN chunk
}

func (e *Endpoint) hello() *Hello {
	h := &Hello{ReceiveBufSize: e.ReceiveBufSize, SendBufSize: e.SendBufSize, MaxMessageSize: e.MaxMessageSize, MaxChunkCount: e.MaxChunkCount, EndpointURL: e.EndpointURL}
	if h.ReceiveBufSize == 0 {
		h.ReceiveBufSize = 0xffff
	}
	if h.SendBufSize == 0 {
		h.SendBufSize = 0xffff
	}
	return h
}

// StepError says in which protocol step a handshake or exchange failed.
type StepError struct {
	Step string // hel, ack, opn-request, opn-response, msg, ...
	Err  error
}

func (e *StepError) Error() string { return e.Step + ": " + e.Err.Error() }
func (e *StepError) Unwrap() error { return e.Err }

func step(s string, err error) error {
	if err == nil {
		return nil
	}
	return &StepError{Step: s, Err: err}
}

// ChunkRecord is one chunk seen or produced by a Channel.
type ChunkRecord struct {
	Sent   bool
	Type   string
	Final  byte
	Seq    uint32
	ReqID  uint32
	Layout *Layout
}

// Message is one reassembled message.
type Message struct {
	Type      string // MSG, CLO, OPN
	RequestID uint32
	Body      []byte // concatenated chunk bodies (type id + structure)
	Aborted   *AbortBody
	Chunks    []ChunkRecord
}

// Channel is an open secure channel as seen by refcodec. It performs no I/O other
// than Read/Write on rw, starts no goroutines and reads no clock.
type Channel struct {
	rw       io.ReadWriter
	ep       *Endpoint
	IsServer bool

	Policy    *Policy
	Mode      Mode
	ChannelID uint32
	TokenID   uint32

	LocalNonce, RemoteNonce []byte
	SendKeys, RecvKeys      DirKeys
	PeerCertDER             []byte

	// negotiated transport limits
	SendChunkSize  uint32 // largest chunk we may send
	RecvChunkSize  uint32 // largest chunk we accept
	PeerHello      *Hello
	PeerAck        *Acknowledge
	MaxBodyPerSend int // if >0 overrides the computed maximum body per chunk when sending

	sendSeq     uint32
	recvSeq     uint32
	haveRecvSeq bool
	nextReqID   uint32

	OpenRequest  *OpenSecureChannelRequest
	OpenResponse *OpenSecureChannelResponse
	OPNRequest   ChunkRecord // layout of the OPN request chunk (received on a server, sent on a client)
	OPNResponse  ChunkRecord

	partial map[uint32]*Message
}

func (ch *Channel) nextSeq() uint32 {
	// Part 6 §6.7.2.4: wraps before 4294966271 (UInt32.MaxValue-1024) to a value below 1024
	ch.sendSeq++
	if ch.sendSeq > 4294966271 {
		ch.sendSeq = 1
	}
	return ch.sendSeq
}

func (ch *Channel) checkSeq(seq uint32) error {
	if ch.haveRecvSeq {
		want := ch.recvSeq + 1
		wrapOK := ch.recvSeq >= 4294966271 && seq < 1024
		if seq != want && !wrapOK {
			return lerr("sequence-number", "got %d after %d", seq, ch.recvSeq)
		}
	}
	ch.recvSeq, ch.haveRecvSeq = seq, true
	return nil
}

func (ch *Channel) sendSec() SymSecurity { return SymSecurity{ch.Policy, ch.Mode, ch.SendKeys} }
func (ch *Channel) recvSec() SymSecurity { return SymSecurity{ch.Policy, ch.Mode, ch.RecvKeys} }

// NextRequestID hands out request ids for a client.
func (ch *Channel) NextRequestID() uint32 {
	ch.nextReqID++
	if ch.nextReqID == 0 {
		ch.nextReqID = 1
	}
	return ch.nextReqID
}

func (ep *Endpoint) nonce() ([]byte, error) {
	if ep.Policy.IsNone() {
		return ep.Nonce, nil
	}
	if ep.Nonce != nil {
		return ep.Nonce, nil
	}
	n := make([]byte, ep.Policy.NonceLen)
	_, err := io.ReadFull(Rand, n)
	return n, err
}

func minNZ(a, b uint32) uint32 {
	if a == 0 {
		return b
	}
	if b == 0 || a < b {
		return a
	}
	return b
}

func readFrameOrErr(r io.Reader, limit uint32) ([]byte, FrameHeader, error) {
	raw, h, err := ReadFrame(r, limit)
	if err != nil {
		return nil, h, err
	}
	if h.Type == TypeError {
		e, derr := DecodeErrorMessage(raw)
		if derr != nil {
			return nil, h, derr
		}
		return nil, h, e
	}
	return raw, h, nil
}

// Accept plays the server: reads HEL, writes ACK, reads the OPN request, verifies it,
// answers with an OPN response and derives the symmetric keys.
func Accept(rw io.ReadWriter, ep *Endpoint) (*Channel, error) {
	ch := &Channel{rw: rw, ep: ep, IsServer: true, partial: map[uint32]*Message{}}
	mine := ep.hello()
	raw, _, err := readFrameOrErr(rw, 0)
	if err != nil {
		return ch, step("hel", err)
	}
	if ch.PeerHello, err = DecodeHello(raw); err != nil {
		return ch, step("hel", err)
	}
	if ch.PeerHello.ReceiveBufSize < 8192 || ch.PeerHello.SendBufSize < 8192 {
		return ch, step("hel", lerr("header", "buffer sizes %d/%d below the 8192 minimum", ch.PeerHello.ReceiveBufSize, ch.PeerHello.SendBufSize))
	}
	// ACK: our receive buffer must not exceed the peer's send buffer and vice versa (Part 6 §7.1.2.4)
	ack := &Acknowledge{ReceiveBufSize: minNZ(mine.ReceiveBufSize, ch.PeerHello.SendBufSize), SendBufSize: minNZ(mine.SendBufSize, ch.PeerHello.ReceiveBufSize),
		MaxMessageSize: mine.MaxMessageSize, MaxChunkCount: mine.MaxChunkCount}
	ch.RecvChunkSize, ch.SendChunkSize = ack.ReceiveBufSize, ack.SendBufSize
	if _, err := rw.Write(ack.Encode()); err != nil {
		return ch, step("ack", err)
	}
	return ch, ch.acceptOpen()
}

func (ch *Channel) acceptOpen() error {
	ep := ch.ep
	raw, h, err := readFrameOrErr(ch.rw, ch.RecvChunkSize)
	if err != nil {
		return step("opn-request", err)
	}
	if h.Type != TypeOpen {
		return step("opn-request", lerr("message-type", "expected OPN, got %q", h.Type))
	}
	c, lay, err := DecodeOPNChunk(ep.Key, ep.CertDER, raw)
	if err != nil {
		return step("opn-request", err)
	}
	ch.OPNRequest = ChunkRecord{Type: TypeOpen, Final: c.IsFinal, Seq: c.SequenceNumber, ReqID: c.RequestID, Layout: lay}
	ch.Policy = PolicyByURI(c.PolicyURI)
	if ep.Policy != nil && ep.Policy != ch.Policy {
		return step("opn-request", lerr("policy", "client used %s, endpoint offers %s", ch.Policy.Name, ep.Policy.Name))
	}
	if ep.PeerCertDER != nil && !ch.Policy.IsNone() && !constEq(ep.PeerCertDER, c.SenderCert) {
		return step("opn-request", lerr("certificate", "SenderCertificate is not the expected client certificate"))
	}
	ch.PeerCertDER = c.SenderCert
	if err := ch.checkSeq(c.SequenceNumber); err != nil {
		return step("opn-request", err)
	}
	req, err := DecodeOpenSecureChannelRequest(c.Body)
	if err != nil {
		return step("opn-request", err)
	}
	ch.OpenRequest = req
	ch.Mode = req.SecurityMode
	if ep.Mode != ModeInvalid && ep.Mode != req.SecurityMode {
		return step("opn-request", lerr("mode", "client requested %v, endpoint offers %v", req.SecurityMode, ep.Mode))
	}
	if ch.Policy.IsNone() != (ch.Mode == ModeNone) {
		return step("opn-request", lerr("mode", "mode %v with policy %s", ch.Mode, ch.Policy.Name))
	}
	if !ch.Policy.IsNone() && len(req.ClientNonce) != ch.Policy.NonceLen {
		return step("opn-request", lerr("nonce-length", "ClientNonce of %d bytes, policy %s requires %d", len(req.ClientNonce), ch.Policy.Name, ch.Policy.NonceLen))
	}
	if req.RequestType != RequestIssue {
		return step("opn-request", lerr("request-type", "first OpenSecureChannel has RequestType %d", req.RequestType))
	}
	ch.RemoteNonce = req.ClientNonce
	epCopy := *ep
	epCopy.Policy = ch.Policy
	if ch.LocalNonce, err = epCopy.nonce(); err != nil {
		return step("opn-response", err)
	}
	ch.ChannelID, ch.TokenID = ep.ChannelID, ep.TokenID
	if ch.ChannelID == 0 {
		ch.ChannelID = 1
	}
	if ch.TokenID == 0 {
		ch.TokenID = 1
	}
	life := ep.RequestedLifetime
	if life == 0 {
		life = req.RequestedLifetime
	}
	resp := &OpenSecureChannelResponse{
		Header:    ResponseHeader{Timestamp: ep.Timestamp, RequestHandle: req.Header.RequestHandle},
		ChannelID: ch.ChannelID, TokenID: ch.TokenID, CreatedAt: ep.Timestamp, RevisedLifetime: life, ServerNonce: ch.LocalNonce,
	}
	ch.OpenResponse = resp
	if ep.FirstSequence != 0 {
		ch.sendSeq = ep.FirstSequence - 1
	}
	out := &Chunk{Type: TypeOpen, IsFinal: Final, ChannelID: ch.ChannelID, PolicyURI: ch.Policy.URI, SenderCert: ep.CertDER,
		SequenceNumber: ch.nextSeq(), RequestID: c.RequestID, Body: resp.Encode()}
	wire, olay, err := EncodeOPNChunk(ep.Key, ch.PeerCertDER, out, ep.OPN)
	if err != nil {
		return step("opn-response", err)
	}
	if uint32(len(wire)) > ch.SendChunkSize {
		return step("opn-response", fmt.Errorf("refcodec: OPN response of %d bytes exceeds the peer's receive buffer %d", len(wire), ch.SendChunkSize))
	}
	ch.OPNResponse = ChunkRecord{Sent: true, Type: TypeOpen, Final: Final, Seq: out.SequenceNumber, ReqID: out.RequestID, Layout: olay}
	if _, err := ch.rw.Write(wire); err != nil {
		return step("opn-response", err)
	}
	// client keys secure client->server, server keys server->client
	clientKeys, serverKeys := ch.Policy.DeriveKeys(ch.RemoteNonce, ch.LocalNonce)
	ch.SendKeys, ch.RecvKeys = serverKeys, clientKeys
	return nil
}

// Dial plays the client: writes HEL, reads ACK, sends the OPN request, verifies the
// OPN response and derives the symmetric keys.
func Dial(rw io.ReadWriter, ep *Endpoint) (*Channel, error) {
	ch := &Channel{rw: rw, ep: ep, partial: map[uint32]*Message{}, Policy: ep.Policy, Mode: ep.Mode, PeerCertDER: ep.PeerCertDER}
	mine := ep.hello()
	if _, err := rw.Write(mine.Encode()); err != nil {
		return ch, step("hel", err)
	}
	raw, _, err := readFrameOrErr(rw, 0)
	if err != nil {
		return ch, step("ack", err)
	}
	if ch.PeerAck, err = DecodeAcknowledge(raw); err != nil {
		return ch, step("ack", err)
	}
	if ch.PeerAck.ReceiveBufSize > mine.SendBufSize || ch.PeerAck.SendBufSize > mine.ReceiveBufSize {
		return ch, step("ack", lerr("header", "ACK buffers %d/%d exceed what HEL offered %d/%d", ch.PeerAck.ReceiveBufSize, ch.PeerAck.SendBufSize, mine.SendBufSize, mine.ReceiveBufSize))
	}
	ch.SendChunkSize, ch.RecvChunkSize = ch.PeerAck.ReceiveBufSize, ch.PeerAck.SendBufSize
	return ch, ch.open()
}

func (ch *Channel) open() error {
	ep := ch.ep
	var err error
	if ch.LocalNonce, err = ep.nonce(); err != nil {
		return step("opn-request", err)
	}
	if ep.FirstSequence != 0 {
		ch.sendSeq = ep.FirstSequence - 1
	}
	if ep.FirstRequestID != 0 {
		ch.nextReqID = ep.FirstRequestID - 1
	}
	reqID := ch.NextRequestID()
	req := &OpenSecureChannelRequest{Header: RequestHeader{Timestamp: ep.Timestamp, RequestHandle: reqID, TimeoutHint: 0},
		RequestType: ep.OPNRequestType, SecurityMode: ep.Mode, ClientNonce: ch.LocalNonce, RequestedLifetime: ep.RequestedLifetime}
	ch.OpenRequest = req
	out := &Chunk{Type: TypeOpen, IsFinal: Final, ChannelID: 0, PolicyURI: ep.Policy.URI, SenderCert: ep.CertDER,
		SequenceNumber: ch.nextSeq(), RequestID: reqID, Body: req.Encode()}
	wire, olay, err := EncodeOPNChunk(ep.Key, ep.PeerCertDER, out, ep.OPN)
	if err != nil {
		return step("opn-request", err)
	}
	if uint32(len(wire)) > ch.SendChunkSize {
		return step("opn-request", fmt.Errorf("refcodec: OPN request of %d bytes exceeds the peer's receive buffer %d", len(wire), ch.SendChunkSize))
	}
	ch.OPNRequest = ChunkRecord{Sent: true, Type: TypeOpen, Final: Final, Seq: out.SequenceNumber, ReqID: reqID, Layout: olay}
	if _, err := ch.rw.Write(wire); err != nil {
		return step("opn-request", err)
	}
	raw, h, err := readFrameOrErr(ch.rw, ch.RecvChunkSize)
	if err != nil {
		return step("opn-response", err)
	}
	if h.Type != TypeOpen {
		return step("opn-response", lerr("message-type", "expected OPN, got %q", h.Type))
	}
	c, lay, err := DecodeOPNChunk(ep.Key, ep.CertDER, raw)
	if err != nil {
		return step("opn-response", err)
	}
	ch.OPNResponse = ChunkRecord{Type: TypeOpen, Final: c.IsFinal, Seq: c.SequenceNumber, ReqID: c.RequestID, Layout: lay}
	if c.PolicyURI != ep.Policy.URI {
		return step("opn-response", lerr("policy", "response uses %q", c.PolicyURI))
	}
	if !ep.Policy.IsNone() && !constEq(c.SenderCert, ep.PeerCertDER) {
		return step("opn-response", lerr("certificate", "SenderCertificate is not the server certificate the request was encrypted for"))
	}
	if c.RequestID != reqID {
		return step("opn-response", lerr("request-id", "response carries RequestId %d, request had %d", c.RequestID, reqID))
	}
	if err := ch.checkSeq(c.SequenceNumber); err != nil {
		return step("opn-response", err)
	}
	resp, err := DecodeOpenSecureChannelResponse(c.Body)
	if err != nil {
		return step("opn-response", err)
	}
	ch.OpenResponse = resp
	if resp.Header.ServiceResult != 0 {
		return step("opn-response", fmt.Errorf("refcodec: OpenSecureChannel failed with 0x%08X", resp.Header.ServiceResult))
	}
	if !ep.Policy.IsNone() && len(resp.ServerNonce) != ep.Policy.NonceLen {
		return step("opn-response", lerr("nonce-length", "ServerNonce of %d bytes, policy %s requires %d", len(resp.ServerNonce), ep.Policy.Name, ep.Policy.NonceLen))
	}
	if c.ChannelID != resp.ChannelID {
		return step("opn-response", lerr("channel-id", "chunk header says %d, security token says %d", c.ChannelID, resp.ChannelID))
	}
	ch.ChannelID, ch.TokenID, ch.RemoteNonce = resp.ChannelID, resp.TokenID, resp.ServerNonce
	clientKeys, serverKeys := ep.Policy.DeriveKeys(ch.LocalNonce, ch.RemoteNonce)
	ch.SendKeys, ch.RecvKeys = clientKeys, serverKeys
	return nil
}

// MaxBody is the number of body bytes this channel puts into one chunk when sending.
func (ch *Channel) MaxBody() int {
	if ch.MaxBodyPerSend > 0 {
		return ch.MaxBodyPerSend
	}
	return SymMaxBody(ch.sendSec(), int(ch.SendChunkSize), ch.ep.Style)
}

// Send splits body into chunks of at most MaxBody bytes, protects and writes them.
// typ is MSG or CLO. It returns the records of the chunks written.
func (ch *Channel) Send(typ string, requestID uint32, body []byte) ([]ChunkRecord, error) {
	max := ch.MaxBody()
	if max <= 0 {
		return nil, fmt.Errorf("refcodec: chunk size %d leaves no room for a body", ch.SendChunkSize)
	}
	var recs []ChunkRecord
	for first := true; first || len(body) > 0; first = false {
		n, fin := len(body), Final
		if n > max {
			n, fin = max, Intermediate
		}
		c := &Chunk{Type: typ, IsFinal: fin, ChannelID: ch.ChannelID, TokenID: ch.TokenID, SequenceNumber: ch.nextSeq(), RequestID: requestID, Body: body[:n]}
		wire, lay, err := EncodeSymChunk(ch.sendSec(), c, ch.ep.Style)
		if err != nil {
			return recs, step("msg", err)
		}
		if uint32(len(wire)) > ch.SendChunkSize {
			return recs, step("msg", fmt.Errorf("refcodec: internal: chunk of %d bytes exceeds %d", len(wire), ch.SendChunkSize))
		}
		if _, err := ch.rw.Write(wire); err != nil {
			return recs, step("msg", err)
		}
		recs = append(recs, ChunkRecord{Sent: true, Type: typ, Final: fin, Seq: c.SequenceNumber, ReqID: requestID, Layout: lay})
		body = body[n:]
	}
	return recs, nil
}

// SendAbort writes an abort chunk for requestID.
func (ch *Channel) SendAbort(requestID uint32, code uint32, reason string) error {
	c := &Chunk{Type: TypeMessage, IsFinal: Abort, ChannelID: ch.ChannelID, TokenID: ch.TokenID, SequenceNumber: ch.nextSeq(), RequestID: requestID,
		Body: (&AbortBody{Code: code, Reason: reason}).Encode()}
	wire, _, err := EncodeSymChunk(ch.sendSec(), c, ch.ep.Style)
	if err != nil {
		return step("msg", err)
	}
	_, err = ch.rw.Write(wire)
	return step("msg", err)
}

// SendRaw writes bytes unchanged (for hostile-stream checks).
func (ch *Channel) SendRaw(b []byte) error { _, err := ch.rw.Write(b); return err }

// RecvChunk reads, verifies and decodes exactly one MSG/CLO chunk.
func (ch *Channel) RecvChunk() (*Chunk, *Layout, []byte, error) {
	raw, h, err := readFrameOrErr(ch.rw, ch.RecvChunkSize)
	if err != nil {
		return nil, nil, nil, step("msg", err)
	}
	if h.Type != TypeMessage && h.Type != TypeClose {
		return nil, nil, raw, step("msg", lerr("message-type", "expected MSG or CLO, got %q", h.Type))
	}
	c, lay, err := DecodeSymChunk(ch.recvSec(), raw)
	if err != nil {
		return nil, lay, raw, step("msg", err)
	}
	if c.ChannelID != ch.ChannelID {
		return c, lay, raw, step("msg", lerr("channel-id", "chunk carries SecureChannelId %d, channel is %d", c.ChannelID, ch.ChannelID))
	}
	if c.TokenID != ch.TokenID {
		return c, lay, raw, step("msg", lerr("token-id", "chunk carries TokenId %d, current token is %d", c.TokenID, ch.TokenID))
	}
	if err := ch.checkSeq(c.SequenceNumber); err != nil {
		return c, lay, raw, step("msg", err)
	}
	return c, lay, raw, nil
}

// Recv reads chunks until one message is complete (final or abort chunk) and returns it.
// Chunks of different requests may interleave; incomplete ones stay buffered.
func (ch *Channel) Recv() (*Message, error) {
	for {
		c, lay, _, err := ch.RecvChunk()
		if err != nil {
			return nil, err
		}
		m := ch.partial[c.RequestID]
		if m == nil {
			m = &Message{Type: c.Type, RequestID: c.RequestID}
			ch.partial[c.RequestID] = m
		}
		if m.Type != c.Type {
			return nil, step("msg", lerr("message-type", "chunk type changed from %s to %s within request %d", m.Type, c.Type, c.RequestID))
		}
		m.Chunks = append(m.Chunks, ChunkRecord{Type: c.Type, Final: c.IsFinal, Seq: c.SequenceNumber, ReqID: c.RequestID, Layout: lay})
		switch c.IsFinal {
		case Intermediate:
			m.Body = append(m.Body, c.Body...)
		case Final:
			m.Body = append(m.Body, c.Body...)
			delete(ch.partial, c.RequestID)
			return m, nil
		case Abort:
			delete(ch.partial, c.RequestID)
			a, err := DecodeAbortBody(c.Body)
			if err != nil {
				return nil, step("msg", err)
			}
			m.Aborted, m.Body = a, nil
			return m, nil
		}
	}
}
