package refcodec

import (
	"bytes"
	"crypto"
	"encoding/hex"
	"fmt"
	"net"
	"strings"
	"testing"

	"verif/engine/keys"
)

// TLS 1.2 PRF test vector (P_SHA256 with label||seed as seed), widely published on the IETF TLS list.
func TestPHashSHA256Vector(t *testing.T) {
	secret, _ := hex.DecodeString("9bbe436ba940f017b17652849a71db35")
	seed, _ := hex.DecodeString("a0ba9f936cda311827a6f796ffd5198c")
	want, _ := hex.DecodeString(strings.ReplaceAll("e3f229ba727be17b8d122620557cd453c2aab21d07c3d495329b52d4e61edb5a6b301791e90d35c9c9a46b4e14baf9af0fa022f7077def17abfd3797c0564bab4fbc91666e9def9b97fce34f796789baa48082d122ee42c5a72e5a5110fff70187347b66", " ", ""))
	got := PHash(crypto.SHA256, secret, append([]byte("test label"), seed...), 100)
	if !bytes.Equal(got, want) {
		t.Fatalf("P_SHA256 mismatch\n got %x\nwant %x", got, want)
	}
}

func TestSymChunkRoundTripAndMaxBody(t *testing.T) {
	for _, p := range Policies {
		for _, mode := range []Mode{ModeNone, ModeSign, ModeSignAndEncrypt} {
			if p.IsNone() != (mode == ModeNone) {
				continue
			}
			ck, _ := p.DeriveKeys(bytes.Repeat([]byte{1}, 32), bytes.Repeat([]byte{2}, 32))
			s := SymSecurity{p, mode, ck}
			for _, style := range []PadStyle{PadMinimal, PadSpecFormula} {
				for _, cs := range []int{8192, 8193, 8200, 8207, 65535} {
					mb := SymMaxBody(s, cs, style)
					if SymChunkLen(s, mb, style) > cs || SymChunkLen(s, mb+1, style) <= cs {
						t.Fatalf("%s %v style %d chunk %d: max body %d wrong", p.Name, mode, style, cs, mb)
					}
				}
				for n := 0; n < 70; n++ {
					body := bytes.Repeat([]byte{byte(n)}, n)
					c := &Chunk{Type: TypeMessage, IsFinal: Final, ChannelID: 7, TokenID: 9, SequenceNumber: 55, RequestID: 66, Body: body}
					wire, lay, err := EncodeSymChunk(s, c, style)
					if err != nil {
						t.Fatal(err)
					}
					if len(wire) != SymChunkLen(s, n, style) {
						t.Fatalf("len %d != predicted %d", len(wire), SymChunkLen(s, n, style))
					}
					d, lay2, err := DecodeSymChunk(s, wire)
					if err != nil {
						t.Fatalf("%s %v n=%d: %v", p.Name, mode, n, err)
					}
					if !bytes.Equal(d.Body, body) || d.SequenceNumber != 55 || d.RequestID != 66 || d.TokenID != 9 || d.ChannelID != 7 {
						t.Fatalf("roundtrip mismatch %+v", d)
					}
					if lay.PaddingSize != lay2.PaddingSize || lay.PlainLen != lay2.PlainLen {
						t.Fatalf("layout mismatch %+v %+v", lay, lay2)
					}
					if mode != ModeNone {
						// any single byte change must be rejected
						for _, i := range []int{0, 3, 5, 9, 13, 17, 24, len(wire) - 1} {
							bad := append([]byte(nil), wire...)
							bad[i] ^= 1
							if _, _, err := DecodeSymChunk(s, bad); err == nil {
								t.Fatalf("%s %v: corruption at %d accepted", p.Name, mode, i)
							}
						}
					}
				}
			}
		}
	}
}

func TestOPNRoundTrip(t *testing.T) {
	for _, p := range SecuredPolicies {
		for _, sb := range keys.Sizes {
			for _, rb := range keys.Sizes {
				if !p.KeySizeAllowed(sb) || !p.KeySizeAllowed(rb) {
					continue
				}
				snd, rcv := keys.MustLoad(sb, "a"), keys.MustLoad(rb, "b")
				for _, style := range []PadStyle{PadMinimal, PadSpecFormula} {
					for _, n := range []int{0, 1, 100, 600} {
						body := bytes.Repeat([]byte{0xab}, n)
						c := &Chunk{Type: TypeOpen, IsFinal: Final, PolicyURI: p.URI, SenderCert: snd.CertDER, SequenceNumber: 1, RequestID: 1, Body: body}
						wire, lay, err := EncodeOPNChunk(snd.Key, rcv.CertDER, c, OPNOptions{Style: style})
						if err != nil {
							t.Fatal(err)
						}
						d, lay2, err := DecodeOPNChunk(rcv.Key, rcv.CertDER, wire)
						if err != nil {
							t.Fatalf("%s %d->%d n=%d: %v", p.Name, sb, rb, n, err)
						}
						if !bytes.Equal(d.Body, body) {
							t.Fatal("body mismatch")
						}
						if lay.PaddingSize != lay2.PaddingSize || lay2.ExtraPadding != (rb > 2048) || lay2.PlainBlockUsed != lay2.PlainBlockMax {
							t.Fatalf("layout %+v %+v", lay, lay2)
						}
						// wrong receiver key
						if _, _, err := DecodeOPNChunk(keys.MustLoad(rb, "a").Key, rcv.CertDER, wire); err == nil {
							t.Fatal("decoded with the wrong key")
						}
					}
				}
			}
		}
	}
}

func TestPeerToPeer(t *testing.T) {
	for _, p := range Policies {
		for _, mode := range []Mode{ModeNone, ModeSign, ModeSignAndEncrypt} {
			if p.IsNone() != (mode == ModeNone) {
				continue
			}
			t.Run(fmt.Sprintf("%s-%v", p.Name, mode), func(t *testing.T) {
				a, b := net.Pipe()
				ck, sk := keys.MustLoad(2048, "a"), keys.MustLoad(2048, "b")
				cep := &Endpoint{Policy: p, Mode: mode, Key: ck.Key, CertDER: ck.CertDER, PeerCertDER: sk.CertDER, ReceiveBufSize: 8192, SendBufSize: 8192, RequestedLifetime: 1000, Style: PadSpecFormula}
				sep := &Endpoint{Key: sk.Key, CertDER: sk.CertDER, ChannelID: 5, TokenID: 6, FirstSequence: 100}
				if p.IsNone() {
					cep.Key, cep.CertDER, cep.PeerCertDER, sep.Key, sep.CertDER = nil, nil, nil, nil, nil
				}
				errc := make(chan error, 1)
				payload := bytes.Repeat([]byte("0123456789"), 3000)
				go func() {
					sch, err := Accept(b, sep)
					if err != nil {
						errc <- err
						return
					}
					m, err := sch.Recv()
					if err != nil {
						errc <- err
						return
					}
					_, err = sch.Send(TypeMessage, m.RequestID, m.Body)
					errc <- err
				}()
				ch, err := Dial(a, cep)
				if err != nil {
					t.Fatal(err)
				}
				id := ch.NextRequestID()
				done := make(chan error, 1)
				go func() { _, err := ch.Send(TypeMessage, id, payload); done <- err }()
				m, err := ch.Recv()
				if err != nil {
					t.Fatal(err)
				}
				if err := <-done; err != nil {
					t.Fatal(err)
				}
				if err := <-errc; err != nil {
					t.Fatal(err)
				}
				if !bytes.Equal(m.Body, payload) || m.RequestID != id || len(m.Chunks) < 4 {
					t.Fatalf("echo mismatch: %d bytes in %d chunks", len(m.Body), len(m.Chunks))
				}
			})
		}
	}
}
