package refcodec

import (
	"encoding/binary"
	"fmt"
	"io"
)

// OPC UA Connection Protocol (Part 6 §7.1.2) message types and chunk flags.
const (
	TypeHello        = "HEL"
	TypeAcknowledge  = "ACK"
	TypeError        = "ERR"
	TypeReverseHello = "RHE"
	TypeMessage      = "MSG"
	TypeOpen         = "OPN"
	TypeClose        = "CLO"

	Final        byte = 'F'
	Intermediate byte = 'C'
	Abort        byte = 'A'
)

// FrameHeader is the 8-byte header common to all UACP and UASC messages:
// MessageType (3 ASCII bytes), chunk flag (1 byte), MessageSize (UInt32, whole message including this header).
type FrameHeader struct {
	Type  string
	Chunk byte
	Size  uint32
}

const FrameHeaderLen = 8

func ParseFrameHeader(b []byte) (FrameHeader, error) {
	if len(b) < FrameHeaderLen {
		return FrameHeader{}, ErrShort
	}
	return FrameHeader{Type: string(b[:3]), Chunk: b[3], Size: binary.LittleEndian.Uint32(b[4:])}, nil
}

// ReadFrame reads exactly one message (UACP message or UASC chunk) from r.
// limit (if non-zero) is the receive buffer size: a larger MessageSize is an error.
func ReadFrame(r io.Reader, limit uint32) ([]byte, FrameHeader, error) {
	hdr := make([]byte, FrameHeaderLen)
	if _, err := io.ReadFull(r, hdr); err != nil {
		return nil, FrameHeader{}, err
	}
	h, _ := ParseFrameHeader(hdr)
	if h.Size < FrameHeaderLen {
		return nil, h, lerr("size-field", "MessageSize %d smaller than the 8 byte header", h.Size)
	}
	if limit != 0 && h.Size > limit {
		return nil, h, lerr("chunk-too-large", "MessageSize %d exceeds the receive buffer %d (type %s%c)", h.Size, limit, h.Type, h.Chunk)
	}
	b := make([]byte, h.Size)
	copy(b, hdr)
	if _, err := io.ReadFull(r, b[FrameHeaderLen:]); err != nil {
		if err == io.EOF {
			err = io.ErrUnexpectedEOF
		}
		return nil, h, err
	}
	return b, h, nil
}

func frame(typ string, chunk byte, body []byte) []byte {
	b := make([]byte, 0, FrameHeaderLen+len(body))
	b = append(b, typ[:3]...)
	b = append(b, chunk)
	b = binary.LittleEndian.AppendUint32(b, uint32(FrameHeaderLen+len(body)))
	return append(b, body...)
}

func frameBody(b []byte, typ string) ([]byte, error) {
	h, err := ParseFrameHeader(b)
	if err != nil {
		return nil, err
	}
	if h.Type != typ {
		return nil, fmt.Errorf("refcodec: message type %q, want %q", h.Type, typ)
	}
	if h.Chunk != Final {
		return nil, fmt.Errorf("refcodec: %s message with chunk flag %q, want 'F'", typ, h.Chunk)
	}
	if int(h.Size) != len(b) {
		return nil, fmt.Errorf("refcodec: MessageSize %d but %d bytes", h.Size, len(b))
	}
	return b[FrameHeaderLen:], nil
}

// Hello is the HEL message (Part 6 §7.1.2.3).
type Hello struct {
	Version        uint32
	ReceiveBufSize uint32
	SendBufSize    uint32
	MaxMessageSize uint32
	MaxChunkCount  uint32
	EndpointURL    string
}

// Encode returns the complete HELF message.
func (h *Hello) Encode() []byte {
	var w Writer
	w.U32(h.Version)
	w.U32(h.ReceiveBufSize)
	w.U32(h.SendBufSize)
	w.U32(h.MaxMessageSize)
	w.U32(h.MaxChunkCount)
	w.String(h.EndpointURL)
	return frame(TypeHello, Final, w.B)
}

func DecodeHello(msg []byte) (*Hello, error) {
	body, err := frameBody(msg, TypeHello)
	if err != nil {
		return nil, err
	}
	r := Reader{B: body}
	h := &Hello{Version: r.U32(), ReceiveBufSize: r.U32(), SendBufSize: r.U32(), MaxMessageSize: r.U32(), MaxChunkCount: r.U32(), EndpointURL: r.Str()}
	if r.Err == nil && r.Remaining() != 0 {
		r.Err = fmt.Errorf("refcodec: %d trailing bytes in HEL", r.Remaining())
	}
	return h, r.Err
}

// Acknowledge is the ACK message (Part 6 §7.1.2.4).
type Acknowledge struct {
	Version        uint32
	ReceiveBufSize uint32
	SendBufSize    uint32
	MaxMessageSize uint32
	MaxChunkCount  uint32
}

func (a *Acknowledge) Encode() []byte {
	var w Writer
	w.U32(a.Version)
	w.U32(a.ReceiveBufSize)
	w.U32(a.SendBufSize)
	w.U32(a.MaxMessageSize)
	w.U32(a.MaxChunkCount)
	return frame(TypeAcknowledge, Final, w.B)
}

func DecodeAcknowledge(msg []byte) (*Acknowledge, error) {
	body, err := frameBody(msg, TypeAcknowledge)
	if err != nil {
		return nil, err
	}
	r := Reader{B: body}
	a := &Acknowledge{Version: r.U32(), ReceiveBufSize: r.U32(), SendBufSize: r.U32(), MaxMessageSize: r.U32(), MaxChunkCount: r.U32()}
	if r.Err == nil && r.Remaining() != 0 {
		r.Err = fmt.Errorf("refcodec: %d trailing bytes in ACK", r.Remaining())
	}
	return a, r.Err
}

// ErrorMessage is the ERR message (Part 6 §7.1.2.5).
type ErrorMessage struct {
	Code   uint32
	Reason string
}

func (e *ErrorMessage) Encode() []byte {
	var w Writer
	w.U32(e.Code)
	w.String(e.Reason)
	return frame(TypeError, Final, w.B)
}

func DecodeErrorMessage(msg []byte) (*ErrorMessage, error) {
	body, err := frameBody(msg, TypeError)
	if err != nil {
		return nil, err
	}
	r := Reader{B: body}
	e := &ErrorMessage{Code: r.U32(), Reason: r.Str()}
	return e, r.Err
}

func (e *ErrorMessage) Error() string {
	return fmt.Sprintf("refcodec: peer sent ERR 0x%08X %q", e.Code, e.Reason)
}

// ReverseHello is the RHE message (Part 6 §7.1.2.6).
type ReverseHello struct {
	ServerURI   string
	EndpointURL string
}

func (h *ReverseHello) Encode() []byte {
	var w Writer
	w.String(h.ServerURI)
	w.String(h.EndpointURL)
	return frame(TypeReverseHello, Final, w.B)
}

func DecodeReverseHello(msg []byte) (*ReverseHello, error) {
	body, err := frameBody(msg, TypeReverseHello)
	if err != nil {
		return nil, err
	}
	r := Reader{B: body}
	h := &ReverseHello{ServerURI: r.Str(), EndpointURL: r.Str()}
	return h, r.Err
}
