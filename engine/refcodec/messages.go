package refcodec

import (
	"fmt"
)

// Numeric ids (namespace 0) of the DefaultBinary encodings the secure channel layer itself uses,
// plus the two services the checks use as variable-size payload carriers.
const (
	IDServiceFault               = 397
	IDFindServersRequest         = 422
	IDFindServersResponse        = 425
	IDOpenSecureChannelRequest   = 446
	IDOpenSecureChannelResponse  = 449
	IDCloseSecureChannelRequest  = 452
	IDCloseSecureChannelResponse = 455
	IDReadRequest                = 631
	IDReadResponse               = 634
)

// SecurityTokenRequestType
const (
	RequestIssue uint32 = 0
	RequestRenew uint32 = 1
)

// JoinBody builds a service message body: the type id as a four-byte NodeId
// (ns=0) followed by the encoded structure.
func JoinBody(typeID uint16, payload []byte) []byte {
	var w Writer
	w.FourByteNodeID(0, typeID)
	w.Raw(payload)
	return w.B
}

// SplitBody splits a message body into the type id and the structure bytes.
func SplitBody(body []byte) (NodeID, []byte, error) {
	r := Reader{B: body}
	id := r.NodeID()
	if r.Err != nil {
		return id, nil, lerr("body", "message body type id: %v", r.Err)
	}
	return id, r.Rest(), nil
}

// RequestHeader (Part 4 §7.28). AdditionalHeader is always written as a null ExtensionObject.
type RequestHeader struct {
	AuthToken         NodeID
	Timestamp         int64 // DateTime: 100 ns ticks since 1601-01-01 UTC
	RequestHandle     uint32
	ReturnDiagnostics uint32
	AuditEntryID      string
	TimeoutHint       uint32
}

func (h *RequestHeader) encode(w *Writer) {
	w.NodeID(h.AuthToken)
	w.I64(h.Timestamp)
	w.U32(h.RequestHandle)
	w.U32(h.ReturnDiagnostics)
	w.String(h.AuditEntryID)
	w.U32(h.TimeoutHint)
	w.NullExtensionObject()
}

func (h *RequestHeader) decode(r *Reader) {
	h.AuthToken = r.NodeID()
	h.Timestamp = r.I64()
	h.RequestHandle = r.U32()
	h.ReturnDiagnostics = r.U32()
	h.AuditEntryID = r.Str()
	h.TimeoutHint = r.U32()
	r.ExtensionObject()
}

// ResponseHeader (Part 4 §7.29). ServiceDiagnostics is written empty, AdditionalHeader null.
type ResponseHeader struct {
	Timestamp     int64
	RequestHandle uint32
	ServiceResult uint32
	StringTable   []string
}

func (h *ResponseHeader) encode(w *Writer) {
	w.I64(h.Timestamp)
	w.U32(h.RequestHandle)
	w.U32(h.ServiceResult)
	w.U8(0) // DiagnosticInfo with no fields
	w.StringArray(h.StringTable)
	w.NullExtensionObject()
}

func (h *ResponseHeader) decode(r *Reader) {
	h.Timestamp = r.I64()
	h.RequestHandle = r.U32()
	h.ServiceResult = r.U32()
	r.DiagnosticInfo()
	h.StringTable = r.StringArray()
	r.ExtensionObject()
}

func done(r *Reader, what string) error {
	if r.Err != nil {
		return lerr("body", "%s: %v", what, r.Err)
	}
	if r.Remaining() != 0 {
		return lerr("body", "%s: %d trailing bytes", what, r.Remaining())
	}
	return nil
}

// OpenSecureChannelRequest (Part 4 §5.5.2 / Part 6 §6.7.4).
type OpenSecureChannelRequest struct {
	Header                RequestHeader
	ClientProtocolVersion uint32
	RequestType           uint32
	SecurityMode          Mode
	ClientNonce           []byte
	RequestedLifetime     uint32
}

// Encode returns the complete message body (type id + structure).
func (m *OpenSecureChannelRequest) Encode() []byte {
	var w Writer
	m.Header.encode(&w)
	w.U32(m.ClientProtocolVersion)
	w.U32(m.RequestType)
	w.U32(uint32(m.SecurityMode))
	w.ByteString(m.ClientNonce)
	w.U32(m.RequestedLifetime)
	return JoinBody(IDOpenSecureChannelRequest, w.B)
}

func expectType(body []byte, want uint32, what string) (*Reader, error) {
	id, rest, err := SplitBody(body)
	if err != nil {
		return nil, err
	}
	if id.NS != 0 || id.ID != want {
		return nil, lerr("body", "type id ns=%d;i=%d, want %s (i=%d)", id.NS, id.ID, what, want)
	}
	return &Reader{B: rest}, nil
}

func DecodeOpenSecureChannelRequest(body []byte) (*OpenSecureChannelRequest, error) {
	r, err := expectType(body, IDOpenSecureChannelRequest, "OpenSecureChannelRequest")
	if err != nil {
		return nil, err
	}
	m := &OpenSecureChannelRequest{}
	m.Header.decode(r)
	m.ClientProtocolVersion = r.U32()
	m.RequestType = r.U32()
	m.SecurityMode = Mode(r.U32())
	m.ClientNonce = r.ByteString()
	m.RequestedLifetime = r.U32()
	return m, done(r, "OpenSecureChannelRequest")
}

// OpenSecureChannelResponse with the ChannelSecurityToken flattened.
type OpenSecureChannelResponse struct {
	Header                ResponseHeader
	ServerProtocolVersion uint32
	ChannelID             uint32
	TokenID               uint32
	CreatedAt             int64
	RevisedLifetime       uint32
	ServerNonce           []byte
}

func (m *OpenSecureChannelResponse) Encode() []byte {
	var w Writer
	m.Header.encode(&w)
	w.U32(m.ServerProtocolVersion)
	w.U32(m.ChannelID)
	w.U32(m.TokenID)
	w.I64(m.CreatedAt)
	w.U32(m.RevisedLifetime)
	w.ByteString(m.ServerNonce)
	return JoinBody(IDOpenSecureChannelResponse, w.B)
}

func DecodeOpenSecureChannelResponse(body []byte) (*OpenSecureChannelResponse, error) {
	r, err := expectType(body, IDOpenSecureChannelResponse, "OpenSecureChannelResponse")
	if err != nil {
		return nil, err
	}
	m := &OpenSecureChannelResponse{}
	m.Header.decode(r)
	m.ServerProtocolVersion = r.U32()
	m.ChannelID = r.U32()
	m.TokenID = r.U32()
	m.CreatedAt = r.I64()
	m.RevisedLifetime = r.U32()
	m.ServerNonce = r.ByteString()
	return m, done(r, "OpenSecureChannelResponse")
}

// CloseSecureChannelRequest carries only a RequestHeader.
type CloseSecureChannelRequest struct{ Header RequestHeader }

func (m *CloseSecureChannelRequest) Encode() []byte {
	var w Writer
	m.Header.encode(&w)
	return JoinBody(IDCloseSecureChannelRequest, w.B)
}

func DecodeCloseSecureChannelRequest(body []byte) (*CloseSecureChannelRequest, error) {
	r, err := expectType(body, IDCloseSecureChannelRequest, "CloseSecureChannelRequest")
	if err != nil {
		return nil, err
	}
	m := &CloseSecureChannelRequest{}
	m.Header.decode(r)
	return m, done(r, "CloseSecureChannelRequest")
}

// FindServersRequest is used by the checks as a request of freely choosable size
// (EndpointURL is an arbitrary-length String).
type FindServersRequest struct {
	Header      RequestHeader
	EndpointURL string
	LocaleIDs   []string
	ServerURIs  []string
}

func (m *FindServersRequest) Encode() []byte {
	var w Writer
	m.Header.encode(&w)
	w.String(m.EndpointURL)
	w.StringArray(m.LocaleIDs)
	w.StringArray(m.ServerURIs)
	return JoinBody(IDFindServersRequest, w.B)
}

func DecodeFindServersRequest(body []byte) (*FindServersRequest, error) {
	r, err := expectType(body, IDFindServersRequest, "FindServersRequest")
	if err != nil {
		return nil, err
	}
	m := &FindServersRequest{}
	m.Header.decode(r)
	m.EndpointURL = r.Str()
	m.LocaleIDs = r.StringArray()
	m.ServerURIs = r.StringArray()
	return m, done(r, "FindServersRequest")
}

// ReadResponseBytes is a ReadResponse with exactly one result: a DataValue holding a
// scalar ByteString Variant and nothing else. Used as a response of freely choosable size.
type ReadResponseBytes struct {
	Header ResponseHeader
	Value  []byte
}

func (m *ReadResponseBytes) Encode() []byte {
	var w Writer
	m.Header.encode(&w)
	w.I32(1)   // Results: one DataValue
	w.U8(0x01) // DataValue mask: Value present
	w.U8(15)   // Variant: scalar ByteString
	w.ByteString(m.Value)
	w.I32(-1) // DiagnosticInfos: null array
	return JoinBody(IDReadResponse, w.B)
}

func DecodeReadResponseBytes(body []byte) (*ReadResponseBytes, error) {
	r, err := expectType(body, IDReadResponse, "ReadResponse")
	if err != nil {
		return nil, err
	}
	m := &ReadResponseBytes{}
	m.Header.decode(r)
	if n := r.I32(); r.Err == nil && n != 1 {
		return nil, fmt.Errorf("refcodec: ReadResponse with %d results, this helper handles exactly 1", n)
	}
	if mask := r.U8(); r.Err == nil && mask != 0x01 {
		return nil, fmt.Errorf("refcodec: DataValue mask 0x%02x, this helper handles 0x01 only", mask)
	}
	if vt := r.U8(); r.Err == nil && vt != 15 {
		return nil, fmt.Errorf("refcodec: Variant type %d, this helper handles scalar ByteString (15) only", vt)
	}
	m.Value = r.ByteString()
	if n := r.I32(); r.Err == nil && n > 0 {
		return nil, fmt.Errorf("refcodec: ReadResponse with %d DiagnosticInfos, this helper handles none", n)
	}
	return m, done(r, "ReadResponse")
}

// AbortBody is the body of an abort chunk ('A'): status code and reason (Part 6 §6.7.3).
type AbortBody struct {
	Code   uint32
	Reason string
}

func (a *AbortBody) Encode() []byte {
	var w Writer
	w.U32(a.Code)
	w.String(a.Reason)
	return w.B
}

func DecodeAbortBody(b []byte) (*AbortBody, error) {
	r := Reader{B: b}
	a := &AbortBody{Code: r.U32(), Reason: r.Str()}
	return a, done(&r, "abort body")
}
