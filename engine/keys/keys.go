// Package keys loads the pre-generated RSA test key material committed under
// /verif/testdata/keys (generated once by ./gen; never at check time).
//
// Files per pair: rsa<bits>-<a|b>.key.pem (PKCS#1 "RSA PRIVATE KEY"), .key.der
// (PKCS#1 DER), .cert.pem, .cert.der (self-signed X.509 v3, SHA256WithRSA,
// SAN URI urn:verif:testkey:rsa<bits>-<name>).
//
// Sizes: 1024, 2048, 3072, 4096 bits, two distinct pairs each ("a", "b"), plus
// the out-of-range probes rsa512-a and rsa5120-a for key-size-limit checks.
//
// The package depends on the Go standard library only.
package keys

import (
	"crypto/rsa"
	"crypto/sha1"
	"crypto/x509"
	"fmt"
	"os"
	"path/filepath"
	"sync"
)

// Pair is one private key with its self-signed certificate.
type Pair struct {
	Bits    int
	Name    string // "a" or "b"
	Key     *rsa.PrivateKey
	CertDER []byte
	Cert    *x509.Certificate
}

// Thumbprint is the SHA-1 digest of the DER certificate (OPC UA CertificateDigest).
func (p *Pair) Thumbprint() []byte { s := sha1.Sum(p.CertDER); return s[:] }

// ID returns e.g. "rsa2048-a".
func (p *Pair) ID() string { return fmt.Sprintf("rsa%d-%s", p.Bits, p.Name) }

// Sizes are the key sizes every policy grid is built from.
var Sizes = []int{1024, 2048, 3072, 4096}

// ProbeSizes are extra sizes outside every policy's allowed range (only pair "a" exists).
var ProbeSizes = []int{512, 5120}

// Dir returns the directory holding the key files ($VERIF_ROOT/testdata/keys, default /verif/testdata/keys).
func Dir() string {
	root := os.Getenv("VERIF_ROOT")
	if root == "" {
		root = "/verif"
	}
	return filepath.Join(root, "testdata", "keys")
}

var (
	mu    sync.Mutex
	cache = map[string]*Pair{}
)

// Load returns the pair rsa<bits>-<name>; results are cached.
func Load(bits int, name string) (*Pair, error) {
	id := fmt.Sprintf("rsa%d-%s", bits, name)
	mu.Lock()
	defer mu.Unlock()
	if p, ok := cache[id]; ok {
		return p, nil
	}
	kder, err := os.ReadFile(filepath.Join(Dir(), id+".key.der"))
	if err != nil {
		return nil, err
	}
	key, err := x509.ParsePKCS1PrivateKey(kder)
	if err != nil {
		return nil, fmt.Errorf("%s: %v", id, err)
	}
	cder, err := os.ReadFile(filepath.Join(Dir(), id+".cert.der"))
	if err != nil {
		return nil, err
	}
	cert, err := x509.ParseCertificate(cder)
	if err != nil {
		return nil, fmt.Errorf("%s: %v", id, err)
	}
	pub, ok := cert.PublicKey.(*rsa.PublicKey)
	if !ok || pub.N.Cmp(key.N) != 0 || key.N.BitLen() != bits {
		return nil, fmt.Errorf("%s: certificate/key mismatch or wrong size", id)
	}
	p := &Pair{Bits: bits, Name: name, Key: key, CertDER: cder, Cert: cert}
	cache[id] = p
	return p, nil
}

// MustLoad is Load that panics on error (missing test data is a machinery failure).
func MustLoad(bits int, name string) *Pair {
	p, err := Load(bits, name)
	if err != nil {
		panic(err)
	}
	return p
}
