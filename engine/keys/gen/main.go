// Command gen generates the committed RSA test key material under
// /verif/testdata/keys. It is run ONCE by hand (4096-bit generation is slow);
// checks never generate keys, they load the committed files via verif/engine/keys.
//
//	go run ./engine/keys/gen [-dir testdata/keys]
//
// Existing files are never overwritten, so re-running only fills gaps.
package main

import (
	"crypto/rand"
	"crypto/rsa"
	"crypto/x509"
	"crypto/x509/pkix"
	"encoding/pem"
	"flag"
	"fmt"
	"math/big"
	"net/url"
	"os"
	"path/filepath"
	"time"
)

func main() {
	dir := flag.String("dir", "testdata/keys", "output directory")
	flag.Parse()
	os.MkdirAll(*dir, 0o755)
	type spec struct {
		bits int
		name string
	}
	var specs []spec
	for _, b := range []int{1024, 2048, 3072, 4096} {
		specs = append(specs, spec{b, "a"}, spec{b, "b"})
	}
	// out-of-range probes for the key size limits (C15): below every minimum, above every maximum
	specs = append(specs, spec{512, "a"}, spec{5120, "a"})
	serial := int64(1000)
	for _, s := range specs {
		serial++
		base := filepath.Join(*dir, fmt.Sprintf("rsa%d-%s", s.bits, s.name))
		if _, err := os.Stat(base + ".key.pem"); err == nil {
			fmt.Println("exists:", base)
			continue
		}
		t0 := time.Now()
		key, err := rsa.GenerateKey(rand.Reader, s.bits)
		if err != nil {
			panic(err)
		}
		uri, _ := url.Parse(fmt.Sprintf("urn:verif:testkey:rsa%d-%s", s.bits, s.name))
		tmpl := &x509.Certificate{
			SerialNumber:          big.NewInt(serial),
			Subject:               pkix.Name{CommonName: fmt.Sprintf("verif rsa%d-%s", s.bits, s.name), Organization: []string{"verif"}},
			NotBefore:             time.Date(2020, 1, 1, 0, 0, 0, 0, time.UTC),
			NotAfter:              time.Date(2120, 1, 1, 0, 0, 0, 0, time.UTC),
			KeyUsage:              x509.KeyUsageDigitalSignature | x509.KeyUsageContentCommitment | x509.KeyUsageKeyEncipherment | x509.KeyUsageDataEncipherment | x509.KeyUsageCertSign,
			ExtKeyUsage:           []x509.ExtKeyUsage{x509.ExtKeyUsageServerAuth, x509.ExtKeyUsageClientAuth},
			BasicConstraintsValid: true,
			IsCA:                  false,
			DNSNames:              []string{"localhost"},
			URIs:                  []*url.URL{uri},
			SignatureAlgorithm:    x509.SHA256WithRSA,
		}
		der, err := x509.CreateCertificate(rand.Reader, tmpl, tmpl, &key.PublicKey, key)
		if err != nil {
			panic(err)
		}
		kder := x509.MarshalPKCS1PrivateKey(key)
		must(os.WriteFile(base+".key.der", kder, 0o644))
		must(os.WriteFile(base+".key.pem", pem.EncodeToMemory(&pem.Block{Type: "RSA PRIVATE KEY", Bytes: kder}), 0o644))
		must(os.WriteFile(base+".cert.der", der, 0o644))
		must(os.WriteFile(base+".cert.pem", pem.EncodeToMemory(&pem.Block{Type: "CERTIFICATE", Bytes: der}), 0o644))
		fmt.Printf("generated %s in %s (cert %d bytes)\n", base, time.Since(t0).Round(time.Millisecond), len(der))
	}
}

func must(err error) {
	if err != nil {
		panic(err)
	}
}
